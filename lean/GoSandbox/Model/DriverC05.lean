import GoSandbox.Base.Proto
import GoSandbox.Model.MountGen
namespace GoSandbox.Driver.C05
open GoSandbox.Proto GoSandbox.Model.MountNS GoSandbox.Model.MountGen

def str (l : List Char) : String := String.ofList l

def entryOf (s : String) : Option Entry :=
  match s.splitOn ":" with
  | ["b", src, tgt, ro, file] => do some (.bind (str (← unhex src)) (str (← unhex tgt)) (ro == "1") (file == "1"))
  | ["t", tgt] => do some (.tmpfs (str (← unhex tgt)))
  | ["p", rw] => some (.proc (rw == "1"))
  | _ => none

def fsName : Fs → String
  | .rootTmpfs => "root" | .host s => "host:" ++ s | .tmpfs => "tmpfs" | .proc => "proc" | .devnull => "devnull" | .emptyTmpfs => "emptytmpfs"

/-- `c05.ns <raw|container> <entries> <symlinks path=target> <masks path=d|f> <probe paths>` -/
def handle : List String → Option String
  | ["c05.ns", impl, es, sl, mk, probes] => do
    let es ← (splitList es).mapM entryOf
    let sl ← (splitList sl).mapM (fun (e : String) => match e.splitOn "=" with
      | [a, b] => do some (str (← unhex a), str (← unhex b)) | _ => none)
    let mk ← (splitList mk).mapM (fun (e : String) => match e.splitOn "=" with
      | [a, b] => do some (str (← unhex a), b == "d") | _ => none)
    let ps ← unhexList probes
    let x := if impl == "raw" then ({} : Extra) else extraOf sl mk
    let ops := opsFor (tableOf es) x
    let gen := if impl == "raw" then genRawOps es else genContainerOps es sl mk
    -- the answer is the skeleton's namespace (what the property demands); `split` says whether the
    -- regenerated code still produces that sequence
    let split := match gen with
      | .error _ => "gen-error"
      | .ok g => if g != ops then "1" else "0"
    match run ops {} with
    | none => some "launch-fails"
    | some ns =>
      let ms := ns.mounts.map (fun m => "/" ++ String.intercalate "/" m.target ++ "|" ++ fsName m.fs ++ "|" ++ (if m.ro then "ro" else "rw"))
      let ws := ps.map (fun p => if writable ns (comps (str p)) then "1" else "0")
      some s!"split={split} mounts={String.intercalate ";" ms} host={if ns.host.isNone then "none" else "reachable"} w={String.intercalate "" ws}"
  | _ => none

end GoSandbox.Driver.C05
