/-
Fault injection on the regenerated child: make the k-th raw syscall fail with errno e and observe
what the child does (Model/ForkChildRun.lean), against the expected error location. Core-only.
-/
import GoSandbox.Model.ForkSkeleton
namespace GoSandbox.Model.ForkFail
open GoSandbox.Model.ForkOpts GoSandbox.Model.ForkSkeleton GoSandbox.Model.ForkChildRun GoSandbox.GoLite

/-- steps whose failure the launcher deliberately ignores ("not critical") -/
def ignoredStep : Step → Bool
  | .sethostname | .setdomainname | .unshare_cgroup => true
  | _ => false

/-- the location name (constant of pkg/forkexec/errloc_linux.go) expected for a failing step -/
def expectLocName (o : Opts) : Step → String
  | .clone | .clone3 => "LocClone"
  | .close_p0 => "LocCloseWrite"
  | .read_idmap => "LocUnshareUserRead"
  | .getpid => "LocGetPid"
  | .prctl_securebits_keep => "LocKeepCapability"
  | .setgroups => "LocSetGroups"
  | .setgid => "LocSetGid"
  | .setuid => "LocSetUid"
  | .setsid => "LocSetSid"
  | .ioctl_ctty => "LocIoctl"
  | .mount_private => "LocMountRoot"
  | .mount_tmpfs_root => "LocMountTmpfs"
  | .chdir_root => "LocMountChdir"
  | .mkdirat => "LocMountMkdir"
  | .mount | .statfs | .mount_remount => "LocMount"
  | .mkdirat_old_root | .pivot_root | .umount2 | .unlinkat | .mount_ro_root => "LocPivotRoot"
  | .chdir_workdir => "LocChdir"
  | .prlimit64 => "LocSetRlimit"
  | .prctl_nnp => "LocSetNoNewPrivs"
  | .prctl_securebits_noroot => if o.ucas then "LocKeepCapability" else "LocDropCapability"
  | .capset => "LocSetCap"
  | .write_sync => "LocSyncWrite"
  | .read_sync => "LocSyncRead"
  | .ptrace_traceme => "LocPtraceMe"
  | .prctl_pdeathsig => "LocPtraceMe"
  | .getppid => "LocPtraceMe"
  | .kill_stop => "LocStop"
  | .seccomp => "LocSeccomp"
  | .execve | .execveat => "LocExecve"
  | _ => "?"

/-- index reported with the error: the mount number / rlimit number, 0 otherwise -/
def expectIndex (labels : List Step) (k : Nat) : Nat :=
  match labels.getD k .getpid with
  | .prlimit64 => ((labels.take k).filter (· == .prlimit64)).length
  | .mkdirat => ((labels.take k).filter (· == .mkdirat)).length
  | .mount => ((labels.take k).filter (· == .mount)).length
  | .statfs => ((labels.take k).filter (· == .statfs)).length
  | .mount_remount => ((labels.take k).filter (· == .mount_remount)).length
  | _ => 0

structure FailOut where
  execed : Bool
  exitCode : Option Int
  reported : Option (Int × Int × Int)   -- (Err, Location, Index) of the last ChildError written
deriving Repr, DecidableEq

def childErrorOf : Val → Option (Int × Int × Int)
  | .strct fs => match recGet fs "Err", recGet fs "Location" with
    | some (.int e), some (.int l) => some (e, l, match recGet fs "Index" with | some (.int i) => i | _ => 0)
    | _, _ => none
  | _ => none

def runFail (o : Opts) (k : Nat) (e : Int) : Except String FailOut :=
  match runChild (launchOf o) { fds := [(100, 50, true), (101, 50, true)] ++ (if o.execFile > 0 then [(o.execFile, 60, true)] else []),
                                pipeIn := [0, 0, 0], failAt := some (k, e) } with
  | .ok out => .ok ⟨out.w.execed, out.w.exited, (out.w.pipeOut.filterMap childErrorOf).getLast?⟩
  | .error er => .error er

/-- what the property demands of a failure at step k (k ≥ 1: step 0 is the clone itself, seen by the parent) -/
def failOk (o : Opts) (k : Nat) (e : Int) : Bool :=
  let labels := skeleton o
  match runFail o k e with
  | .error _ => false
  | .ok r =>
    let step := labels.getD k .getpid
    if ignoredStep step then r.execed
    else !r.execed && r.exitCode == some e &&
      r.reported == some (e, cNat (expectLocName o step), Int.ofNat (expectIndex labels k))

end GoSandbox.Model.ForkFail
