/-
Hand models for C08: RLimits.PrepareRLimit, checkUsage, the capped output collector; and the
Go-lite runs of the regenerated functions (Gen.C08, Gen.C09.checkUsage). Core-only.
-/
import GoSandbox.GoLite.Exec
import GoSandbox.Gen.C08
import GoSandbox.Gen.C09
import GoSandbox.Gen.Consts
import GoSandbox.Model.Classify
namespace GoSandbox.Model.RLimit
open GoSandbox.GoLite

structure RLimits where
  cpu : Nat
  cpuHard : Nat
  data : Nat
  fileSize : Nat
  stack : Nat
  addressSpace : Nat
  openFile : Nat
  disableCore : Bool
deriving Repr, DecidableEq

/-- (resource, cur, max) -/
abbrev Entry := Nat × Nat × Nat

def rCPU := Gen.Consts.syscall_RLIMIT_CPU
def rDATA := Gen.Consts.syscall_RLIMIT_DATA
def rFSIZE := Gen.Consts.syscall_RLIMIT_FSIZE
def rSTACK := Gen.Consts.syscall_RLIMIT_STACK
def rAS := Gen.Consts.syscall_RLIMIT_AS
def rNOFILE := Gen.Consts.syscall_RLIMIT_NOFILE
def rCORE := Gen.Consts.syscall_RLIMIT_CORE

/-- Go: `(*RLimits).PrepareRLimit()` (values are uint64; no arithmetic, so no wrap). -/
def prepare (r : RLimits) : List Entry :=
  (if r.cpu > 0 then [(rCPU, r.cpu, if r.cpuHard < r.cpu then r.cpu else r.cpuHard)] else []) ++
  (if r.data > 0 then [(rDATA, r.data, r.data)] else []) ++
  (if r.fileSize > 0 then [(rFSIZE, r.fileSize, r.fileSize)] else []) ++
  (if r.stack > 0 then [(rSTACK, r.stack, r.stack)] else []) ++
  (if r.addressSpace > 0 then [(rAS, r.addressSpace, r.addressSpace)] else []) ++
  (if r.openFile > 0 then [(rNOFILE, r.openFile, r.openFile)] else []) ++
  (if r.disableCore then [(rCORE, 0, 0)] else [])

/-- the kernel side: prlimit64 entries applied in order to a limit table -/
def applyEntries (init : Nat → Nat × Nat) (es : List Entry) : Nat → Nat × Nat :=
  es.foldl (fun tbl e => fun res => if res = e.1 then (e.2.1, e.2.2) else tbl res) init

/-! ### regenerated PrepareRLimit through Go-lite -/

def cfg : Cfg Unit :=
  { ext := fun n args _ _ => match n, args with
      | "getRlimit", [c, m] => .ok (.strct [("Cur", c), ("Max", m)], ())
      | "new", _ => .ok (.nil, ())
      | _, _ => .error s!"unknown call {n}"
    glob := fun n => if n == "bytes.Buffer" then some .nil else Classify.glob n }

def rVal (r : RLimits) : Val :=
  .strct [("CPU", .int r.cpu), ("CPUHard", .int r.cpuHard), ("Data", .int r.data), ("FileSize", .int r.fileSize),
    ("Stack", .int r.stack), ("AddressSpace", .int r.addressSpace), ("OpenFile", .int r.openFile), ("DisableCore", .bool r.disableCore)]

def entryOf : Val → Option Entry
  | .strct fs => match recGet fs "Res", recGet fs "Rlim" with
    | some (.int res), some (.strct rl) => match recGet rl "Cur", recGet rl "Max" with
      | some (.int c), some (.int m) => some (res.toNat, c.toNat, m.toNat)
      | _, _ => none
    | _, _ => none
  | _ => none

def genPrepare (r : RLimits) : Except String (List Entry) :=
  match runBody cfg [] Gen.C08.prepareRLimit.body [("r", rVal r)] () 400 with
  | .ok (some [.list l], _, _) => match l.mapM entryOf with
    | some es => .ok es
    | none => .error "entry shape"
  | .ok (some [.nil], _, _) => .ok []
  | .ok _ => .error "shape"
  | .error e => .error e

/-! ### usage check -/

inductive Verdict | normal | tle | mle
deriving DecidableEq, Repr

/-- Go: `(*Tracer).checkUsage`: user time in ns, max RSS in KiB; strict comparisons; memory overrides time. -/
def checkUsage (utimeNs maxrssKb timeLimitNs memLimit : Nat) : Nat × Nat × Verdict :=
  let mem := maxrssKb * 1024
  (utimeNs, mem, if mem > memLimit then .mle else if utimeNs > timeLimitNs then .tle else .normal)

def genCheckUsage (utimeNs maxrssKb timeLimitNs memLimit : Nat) : Except String (Int × Int × Int) :=
  let t : Val := .strct [("Limit", .strct [("TimeLimit", .int timeLimitNs), ("MemoryLimit", .int memLimit)])]
  match runBody Classify.cfg [] Gen.C09.checkUsage.body [("rusage", .strct [("Maxrss", .int maxrssKb)]), ("t", t)]
      { utimeNs := utimeNs } 400 with
  | .ok (some [.int a, .int b, .int c], _, _) => .ok (a, b, c)
  | .ok _ => .error "shape"
  | .error e => .error e

/-! ### capped output collector (pipe.NewBuffer / NewPipe) -/

/-- what the collector goroutine does with the byte stream the program writes (as the sequence of
chunks the reader sees): `io.CopyN(buffer, r, cap)` then `io.Copy(io.Discard, r)` until EOF.
Returns (retained, number of bytes consumed from the pipe). -/
def collect (cap : Nat) (chunks : List (List Nat)) : List Nat × Nat :=
  (chunks.flatten.take cap, chunks.flatten.length)

/-- the cap `NewBuffer(max)` hands to `NewPipe`, read off the regenerated code -/
def genBufferCap (max : Nat) : Except String Int :=
  let c : Cfg (Option Int) :=
    { ext := fun n args _ w => match n, args with
        | "new", _ => .ok (.nil, w)
        | "NewPipe", [_, .int k] => .ok (.tup [.nil, .nil, .nil], some k)
        | _, _ => .error s!"unknown call {n}"
      glob := fun n => if n == "bytes.Buffer" then some .nil else none }
  match runBody c [] Gen.C08.newBuffer.body [("max", .int max)] none 200 with
  | .ok (_, _, some k) => .ok k
  | .ok _ => .error "NewPipe not called"
  | .error e => .error e

end GoSandbox.Model.RLimit
