/- running the regenerated `clen` / `hasNull` (Gen.C15) through the Go-lite interpreter -/
import GoSandbox.GoLite.Exec
import GoSandbox.Gen.C15
namespace GoSandbox.Model.GetStringGen
open GoSandbox.GoLite

def cfg : Cfg Unit := { ext := fun n _ _ _ => .error s!"unknown call {n}", glob := fun _ => none }

def bytesVal (b : List Nat) : Val := .list (b.map (fun x => Val.int (Int.ofNat x)))

def genClen (b : List Nat) : Except String Int :=
  match runBody cfg [] Gen.C15.clen.body [("b", bytesVal b)] () (4 * b.length + 50) with
  | .ok (some [.int n], _, _) => .ok n
  | .ok _ => .error "shape"
  | .error e => .error e

def genHasNull (b : List Nat) : Except String Bool :=
  match runBody cfg [] Gen.C15.hasNull.body [("buff", bytesVal b)] () (4 * b.length + 50) with
  | .ok (some [.bool r], _, _) => .ok r
  | .ok _ => .error "shape"
  | .error e => .error e

end GoSandbox.Model.GetStringGen
