/-
Execution harness (Go-lite configuration) for the three regenerated wait-status classifiers:
  Gen.C09.ptraceHandle   = ptracer (*ptraceHandle).handle
  Gen.C09.unshareLoop    = body of the wait loop of runner/unshare (*Runner).Run
  Gen.C09.convertReply / convertReplyResult = container side / host side of the container runner
External calls are interpreted here; everything else is the code as translated.
-/
import GoSandbox.GoLite.Exec
import GoSandbox.Kernel.WaitStatus
import GoSandbox.Spec.StatusTable
import GoSandbox.Gen.C09
import GoSandbox.Gen.C15
import GoSandbox.Gen.Consts
namespace GoSandbox.Model.Classify
open GoSandbox.GoLite GoSandbox.Kernel GoSandbox.Spec.StatusTable

def glob (n : String) : Option Val :=
  match n with
  | "unix.EINTR" => some (.str "EINTR")
  | "unix.ESRCH" => some (.str "no such process")
  | _ => (Gen.Consts.table.find? (fun p => p.1 == n)).map (fun p => Val.int p.2)

def sigtrap : Nat := Gen.Consts.unix_SIGTRAP

/-- the oracle/log for the opaque calls made by the classifiers -/
structure World where
  log : List String := []
  setOptFails : Bool := false
  /-- error of PTRACE_GETREGSET in getTrapContext (e.g. "no such process" when the tracee vanished) -/
  trapError : Option String := none
  /-- the handler's decision for the trapped syscall: 0 allow, 1 ban, 2 kill -/
  decision : Nat := 0
  /-- error of PTRACE_SETREGS in skipSyscall -/
  skipError : Option String := none
  utimeNs : Int := 0
deriving Repr, Inhabited

def splitLast (s : String) : String × String :=
  let r := s.toList.reverse
  let m := r.takeWhile (· != '.')
  let rest := (r.dropWhile (· != '.')).drop 1
  (String.ofList rest.reverse, String.ofList m.reverse)

def wsMethod (m : String) (w : Nat) : Option Val :=
  match m with
  | "Exited" => some (.bool (WaitStatus.exited w))
  | "Signaled" => some (.bool (WaitStatus.signaled w))
  | "Stopped" => some (.bool (WaitStatus.stopped w))
  | "ExitStatus" => some (.int (WaitStatus.exitStatus w))
  | "Signal" => some (.int (WaitStatus.signal w))
  | "StopSignal" => some (.int (WaitStatus.stopSignal w))
  | "TrapCause" => some (.int (WaitStatus.trapCause w sigtrap))
  | _ => none

def showVal : Val → String
  | .int i => toString i
  | .str s => s
  | .bool b => toString b
  | _ => "_"

def errVal : Option String → Val
  | some e => .str e
  | none => .nil

def extBase (name : String) (args : List Val) (env : Env) (w : World) : Except String (Val × World) :=
  let (recv, m) := splitLast name
  match (match env.get? recv with | some (.int ws) => wsMethod m ws.toNat | _ => none) with
  | some v => .ok (v, w)
  | none =>
    match name, args with
    | "ph.Handler.Debug", _ => .ok (.nil, w)
    | "r.println", _ => .ok (.nil, w)
    | "unix.PtraceCont", [pid, sig] => .ok (.nil, { w with log := w.log ++ [s!"cont {showVal pid} {showVal sig}"] })
    | "setPtraceOption", [pid] =>
      .ok (if w.setOptFails then .str "no such process" else .nil, { w with log := w.log ++ [s!"setoptions {showVal pid}"] })
    | "getTrapContext", [pid] =>
      .ok (match w.trapError with
        | some e => .tup [.nil, .str e]
        | none => .tup [.strct [("pid", pid)], .nil], { w with log := w.log ++ [s!"getregs {showVal pid}"] })
    | "ph.Handler.Handle", [_] => .ok (.int w.decision, { w with log := w.log ++ ["handle"] })
    | "ctx.skipSyscall", [] => .ok (errVal w.skipError, { w with log := w.log ++ ["skip"] })
    | "err.Error", [] => .ok (match (env.get? "err").getD .nil with
        | .int 5 => .str "Disallowed Syscall"
        | .int n => .str s!"status:{n}"
        | v => v, w)
    | "reply.Error.Error", [] => .ok (.str "reply-error", w)
    | "time.Now", [] => .ok (.nil, w)
    | "time.Since", _ => .ok (.nil, w)
    | "mTime.Sub", _ => .ok (.nil, w)
    | "time.Duration", [v] => .ok (v, w)
    | "runner.Size", [v] => .ok (v, w)
    | "rusage.Utime.Nano", [] => .ok (.int w.utimeNs, w)
    | "unix.Wait4", _ => .ok (.tup [.int 0, .nil], w)
    | "fmt.Sprintf", (.str f) :: _ => .ok (.str f, w)
    | _, _ => .error s!"unknown call {name}"

def cfg0 : Cfg World := { ext := extBase, glob := glob }

/-- `ph.handleTrap(pid)` is itself the regenerated function, run in the same world -/
def ext (name : String) (args : List Val) (env : Env) (w : World) : Except String (Val × World) :=
  match name, args with
  | "ph.handleTrap", [pid] =>
    let f := Gen.C15.handleTrap
    match runBody cfg0 f.results f.body [("pid", pid), ("ph", (env.get? "ph").getD .nil)] w 500 with
    | .ok (some [v], _, w) => .ok (v, w)
    | .ok (_, _, _) => .error "handleTrap did not return a value"
    | .error e => .error e
  | _, _ => extBase name args env w

def cfg : Cfg World := { ext := ext, glob := glob }

/-! ### ptrace runner -/

structure PtraceOut where
  status : Int
  exitStatus : Int
  errStr : String
  finished : Bool
  execved : Bool
  log : List String
deriving Repr, DecidableEq

def strOf : Val → String
  | .str s => s
  | _ => ""

def runPtrace (pgid pid ws : Nat) (execved tracedAlready : Bool) (w : World) : Except String PtraceOut := do
  let traced : Val := .strct (if tracedAlready then [(toString pid, .bool true)] else [])
  let ph : Val := .strct [("pgid", .int pgid), ("traced", traced), ("execved", .bool execved), ("fTime", .nil), ("Handler", .strct [])]
  let f := Gen.C09.ptraceHandle
  let env : Env := (f.results.map (fun r => (r, match r with
      | "status" | "exitStatus" => Val.int 0
      | "finished" => Val.bool false
      | _ => Val.str ""))) ++ [("wstatus", .int ws), ("pid", .int pid), ("ph", ph)]
  let (_, env, w) ← runBody cfg f.results f.body env w 2000
  let get (k : String) := (env.get? k).getD .nil
  let exv := match env.get? "ph" with
    | some (.strct fs) => (match recGet fs "execved" with | some (.bool b) => b | _ => false)
    | _ => false
  match get "status", get "exitStatus", get "finished" with
  | .int s, .int e, .bool f => .ok ⟨s, e, strOf (get "errStr"), f, exv, w.log⟩
  | _, _, _ => .error "bad result shape"

/-! ### namespace (unshare) runner: one iteration of the wait loop -/

structure RunOut where
  returned : Bool
  status : Int
  exitStatus : Int
  error : String
deriving Repr, DecidableEq

def fieldInt (v : Val) (k : String) : Int :=
  match v with
  | .strct fs => (match recGet fs k with | some (.int i) => i | _ => 0)
  | _ => 0
def fieldStr (v : Val) (k : String) : String :=
  match v with
  | .strct fs => (match recGet fs k with | some (.str s) => s | _ => "")
  | _ => ""

def runUnshare (ws : Nat) (utimeNs maxrssKb timeLimit memLimit : Nat) : Except String RunOut := do
  let f := Gen.C09.unshareLoop
  let r : Val := .strct [("Limit", .strct [("TimeLimit", .int timeLimit), ("MemoryLimit", .int memLimit)])]
  let env : Env := [("result", .strct [("Status", .int 0), ("ExitStatus", .int 0), ("Error", .str "")]),
    ("status", .int Gen.Consts.runner_StatusNormal), ("wstatus", .int ws), ("pgid", .int 100),
    ("rusage", .strct [("Maxrss", .int maxrssKb)]), ("r", r)]
  let (ret, env, _) ← runBody cfg f.results f.body env { utimeNs := utimeNs } 2000
  let res := match ret with
    | some [v] => v
    | _ => (env.get? "result").getD .nil
  .ok ⟨ret.isSome, fieldInt res "Status", fieldInt res "ExitStatus", fieldStr res "Error"⟩

/-! ### container runner: convertReply in init, convertReplyResult on the host -/

def runContainer (ws : Nat) (waitErr : Bool) : Except String RunOut := do
  let f := Gen.C09.convertReply
  let ret : Val := .strct [("Err", if waitErr then .str "wait4 failed" else .nil), ("WaitStatus", .int ws),
    ("Rusage", .strct [("Maxrss", .int 0)])]
  let (r, _, _) ← runBody cfg f.results f.body [("ret", ret)] {} 2000
  let reply ← match r with
    | some [v] => pure v
    | _ => .error "convertReply did not return"
  -- gob transport: absent pointer fields arrive as nil
  let reply := match reply with
    | .strct fs => Val.strct [("Error", (recGet fs "Error").getD .nil), ("ExecReply", (recGet fs "ExecReply").getD .nil),
                              ("BatchErrors", .nil)]
    | v => v
  let g := Gen.C09.convertReplyResult
  let (r2, _, _) ← runBody cfg g.results g.body [("reply", reply), ("sTime", .nil), ("mTime", .nil), ("err", .nil)] {} 2000
  match r2 with
  | some [v] => .ok ⟨true, fieldInt v "Status", fieldInt v "ExitStatus", fieldStr v "Error"⟩
  | _ => .error "convertReplyResult did not return"

/-! ### decoding the compiled status numbers into the spec's names -/

def statusOf (n : Int) : Option Status :=
  if n = Gen.Consts.runner_StatusNormal then some .normal
  else if n = Gen.Consts.runner_StatusTimeLimitExceeded then some .tle
  else if n = Gen.Consts.runner_StatusMemoryLimitExceeded then some .mle
  else if n = Gen.Consts.runner_StatusOutputLimitExceeded then some .ole
  else if n = Gen.Consts.runner_StatusDisallowedSyscall then some .disallowed
  else if n = Gen.Consts.runner_StatusSignalled then some .signalled
  else if n = Gen.Consts.runner_StatusNonzeroExitStatus then some .nonzero
  else if n = Gen.Consts.runner_StatusRunnerError then some .runnerError
  else none

end GoSandbox.Model.Classify
