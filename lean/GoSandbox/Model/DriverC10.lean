import GoSandbox.Base.Proto
import GoSandbox.Model.Rpc
namespace GoSandbox.Driver.C10
open GoSandbox.Proto GoSandbox.Model.Rpc

def hmsg : String → Option HMsg
  | "ping" => some .ping | "conf" => some .conf | "open" => some .open_ | "delete" => some .delete | "reset" => some .reset
  | "symlink" => some .symlink | "execve" => some .execve | "ok" => some .ok | "kill" => some .kill | _ => none
def cmsg : String → Option CMsg
  | "reply" => some .reply | "errReply" => some .errReply | "sync" => some .sync | "result" => some .result | _ => none
def outcome : String → Option Outcome
  | "reject" => some .rejectBeforeFork | "failBeforeSync" => some .failBeforeSync | "callbackFails" => some .callbackFails
  | "failAfterAck" => some .failAfterAck | "runs" => some .runs | _ => none

/-- log entries: `h>kind`, `h<kind`, `c<kind`, `c>kind` -/
def ev (t : String) : Option Ev :=
  let k := (t.drop 2).toString
  if t.startsWith "h>" then (hmsg k).map Ev.hs
  else if t.startsWith "h<" then (cmsg k).map Ev.hr
  else if t.startsWith "c<" then (hmsg k).map Ev.cr
  else if t.startsWith "c>" then (cmsg k).map Ev.cs
  else none

/-- `c10.explain simple <kind> <fails01> <apiOk01> <hostlog> <contlog>` /
    `c10.explain execve <syncAfter01> <outcome> <apiOk01> <hostlog> <contlog>` -/
def handle : List String → Option String
  | ["c10.explain", "simple", k, f, ok, hs, hr, cr, cs] => do
    let op := Op.simple (← hmsg k) (f == "1")
    let l (x : String) := (splitList x).mapM ev
    some (if explains ⟨true, op⟩ (← l hs) (← l hr) (← l cr) (← l cs) (ok == "1") then "explained" else "no-run")
  | ["c10.explain", "execve", sa, o, ok, hs, hr, cr, cs] => do
    let op := Op.execve (sa == "1") (← outcome o)
    let l (x : String) := (splitList x).mapM ev
    some (if explains ⟨true, op⟩ (← l hs) (← l hr) (← l cr) (← l cs) (ok == "1") then "explained" else "no-run")
  | _ => none

end GoSandbox.Driver.C10
