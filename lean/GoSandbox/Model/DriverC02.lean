import GoSandbox.Base.Proto
import GoSandbox.Model.PathResolve
import GoSandbox.Model.PathDispatch
namespace GoSandbox.Driver.C02
open GoSandbox.Proto GoSandbox.Model.PathResolve GoSandbox.Model.PathDispatch

def str (l : List Char) : String := String.ofList l

/-- pairs "xAAAA=xBBBB" -/
def pairs (s : String) : Option (List (String × String)) :=
  (splitList s).mapM (fun e => match e.splitOn "=" with
    | [a, b] => do some (str (← unhex a), str (← unhex b))
    | _ => none)

def fdPairs (s : String) : Option (List (Nat × String)) :=
  (splitList s).mapM (fun e => match e.splitOn "=" with
    | [a, b] => do some (← a.toNat?, str (← unhex b))
    | _ => none)

def world (cwd fds links : String) : Option World := do
  some { cwd := str (← unhex cwd), fds := ← fdPairs fds, links := ← pairs links }

/-- `c02.resolve <cwd> <fds> <links> <base> <path>`: regenerated resolveTraceePath and the hand model -/
def handle : List String → Option String
  | ["c02.resolve", cwd, fds, links, base, p] => do
    let w ← world cwd fds links
    let b := str (← unhex base)
    let p := str (← unhex p)
    match genResolve w b p, modelResolve w (if b == "" then w.cwd else b) p with
    | .ok g, some (m, capped) =>
      if g == m then some s!"{hex g.toList} capped={capped}" else some s!"model-split gen={g} hand={m}"
    | .error e, _ => some s!"gen-error {e}"
    | _, none => some "hand-out-of-fuel"
  | ["c02.absat", cwd, fds, links, dirfd, p] => do
    let w ← world cwd fds links
    let p := str (← unhex p)
    let dfd ← dirfd.toInt?
    match genAbsPathAt w dfd p with
    | .ok g => some (hex g.toList)
    | .error e => some s!"gen-error {e}"
  | ["c02.ro", flags] => do
    let f ← flags.toNat?
    match genIsOpenReadOnly f with
    | some g => if g == isOpenReadOnly f then some (if g then "ro" else "write") else some "model-split"
    | none => some "gen-error"
  | ["c02.dirfd", reg] => do
    let r ← reg.toNat?
    some (toString (decodeDirfd r))
  | ["c02.dispatch", name] =>
    match genDispatch name with
    | some l => some (String.intercalate ";" (l.map (fun e => e.1 ++ ":" ++ String.intercalate "," (e.2.map toString))))
    | none => some "none"
  | _ => none

end GoSandbox.Driver.C02
