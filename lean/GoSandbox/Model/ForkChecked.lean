/-
A syntactic analysis of the regenerated `forkAndExecInChild`: every raw syscall whose errno is
kept (`_, _, err1 = syscall.RawSyscall…`) is followed, before anything else runs, by
`if err1 != 0 { childExitError…(…) }` (possibly with `&& err1 != syscall.EEXIST` or `r1 == 0 ||`),
and every raw syscall whose result is dropped is one of the documented non-critical steps.
Core-only; evaluated in the kernel on Gen.ForkChild.
-/
import GoSandbox.GoLite.Ast
namespace GoSandbox.Model.ForkChecked
open GoSandbox.GoLite

def isRawCall : Expr → Bool
  | .call (.sel (.id "syscall") "RawSyscall") _ => true
  | .call (.sel (.id "syscall") "RawSyscall6") _ => true
  | _ => false

def sysOf : Expr → String
  | .call _ ((.sel _ n) :: _) => n
  | _ => "?"

def mentionsErr1 : Expr → Bool
  | .id "err1" => true
  | .bin _ a b => mentionsErr1 a || mentionsErr1 b
  | .un _ a => mentionsErr1 a
  | _ => false

def isExitCall : Stmt → Bool
  | .expr (.call (.id "childExitError") _) => true
  | .expr (.call (.id "childExitErrorWithIndex") _) => true
  | _ => false

def errNe0 : Expr → Bool
  | .bin "!=" (.id "err1") (.lit 0) => true
  | _ => false

/-- the conditions under which a failing step is reported: `err1 != 0`, `r1 == 0 || err1 != 0`
(short read/write on the sync socket), and — only for creating mount points — `err1 != 0 && err1 != syscall.EEXIST` -/
def okCond (sys : String) : Expr → Bool
  | .bin "||" (.bin "==" (.id "r1") (.lit 0)) e => errNe0 e
  | .bin "&&" e (.bin "!=" (.id "err1") (.sel (.id "syscall") "EEXIST")) => errNe0 e && (sys == "SYS_MKDIRAT" || sys == "SYS_MKNODAT")
  | e => errNe0 e

/-- `if <err1 check> { childExitError…; }` -/
def isErrCheck (sys : String) : Stmt → Bool
  | .ifs [] c thn [] => okCond sys c && thn.any isExitCall
  | _ => false

/-- steps whose failure is deliberately ignored -/
def ignorable : List String := ["SYS_SETHOSTNAME", "SYS_SETDOMAINNAME", "SYS_UNSHARE", "SYS_CLOSE", "SYS_NANOSLEEP"]

/-- returns the list of violations (raw syscalls that are neither checked nor ignorable);
fuel = nesting depth + list length budget (structural on fuel, so it reduces in the kernel) -/
def scan : Nat → List Stmt → List String
  | 0, _ => ["fuel"]
  | _ + 1, [] => []
  | fuel + 1, (.assign lhs "=" [rhs]) :: rest =>
    if isRawCall rhs && lhs.any (fun e => match e with | .id "err1" => true | _ => false) then
      match rest with
      | nxt :: rest' =>
        if isErrCheck (sysOf rhs) nxt then scan fuel rest'
        else if sysOf rhs == "SYS_EXECVE" || sysOf rhs == "SYS_EXECVEAT" then scan fuel rest   -- the exec itself: checked by the final childExitError
        else ("unchecked " ++ sysOf rhs) :: scan fuel rest
      | [] => if sysOf rhs == "SYS_EXECVE" || sysOf rhs == "SYS_EXECVEAT" then [] else ["unchecked-at-end " ++ sysOf rhs]
    else scan fuel rest
  | fuel + 1, (.expr e) :: rest =>
    (if isRawCall e && !(ignorable.contains (sysOf e)) then ["dropped " ++ sysOf e] else []) ++ scan fuel rest
  | fuel + 1, (.ifs init c thn els) :: rest =>
    -- `if _, _, err1 = RawSyscall(...); err1 != 0 { childExitError }`
    (match init with
     | [.assign lhs "=" [rhs]] =>
       if isRawCall rhs && lhs.any (fun e => match e with | .id "err1" => true | _ => false) && !(okCond (sysOf rhs) c && thn.any isExitCall)
       then ["unchecked-init " ++ sysOf rhs] else []
     | _ => []) ++ scan fuel thn ++ scan fuel els ++ scan fuel rest
  | fuel + 1, (.for_ _ _ _ b) :: rest => scan fuel b ++ scan fuel rest
  | fuel + 1, (.range _ _ _ b) :: rest => scan fuel b ++ scan fuel rest
  | fuel + 1, (.block b) :: rest => scan fuel b ++ scan fuel rest
  | fuel + 1, _ :: rest => scan fuel rest

def scanList (l : List Stmt) : List String := scan 400 l


end GoSandbox.Model.ForkChecked
