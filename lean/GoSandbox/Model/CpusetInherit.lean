/-
C20: the cpuset initialisation of a v1 group (pkg/cgroup/v1_linux.go: initCpuset /
copyCgroupPropertyFromParent), regenerated and run by Go-lite on a model of the cpuset files
(path ↦ content; the kernel creates `cpuset.cpus` / `cpuset.mems` of a new group empty), and the
hand model it is compared with.  The recursive call of the Go function is resolved with fuel.
Core-only.
-/
import GoSandbox.GoLite.Exec
import GoSandbox.Gen.C20
namespace GoSandbox.Model.CpusetInherit
open GoSandbox.GoLite

abbrev Files := List (String × String)

structure FW where
  files : Files
  writes : List (String × String) := []

def dirOf (p : String) : String := String.ofList ((p.toList.reverse.dropWhile (· != '/')).drop 1).reverse

def lookup : Files → String → Option String
  | [], _ => none
  | (k, v) :: r, p => if k == p then some v else lookup r p

def setFile : Files → String → String → Files
  | [], p, c => [(p, c)]
  | (k, v) :: r, p, c => if k == p then (k, c) :: r else (k, v) :: setFile r p c

def isWs (c : Char) : Bool := c == ' ' || c == '\n' || c == '\t' || c == '\r'

def trim (s : String) : String := String.ofList ((s.toList.dropWhile isWs).reverse.dropWhile isWs).reverse

def blank (s : String) : Bool := (trim s).isEmpty

def fglob (n : String) : Option Val := if n == "filePerm" then some (.int 420) else none

/-- external calls of the two regenerated functions; `copyCgroupPropertyFromParent` calls the
regenerated function again (one unit of fuel per level of the hierarchy) -/
def fext : Nat → String → List Val → Env → FW → Except String (Val × FW)
  | _, "os.ReadFile", [.str p], _, w =>
    (match lookup w.files p with
     | some c => .ok (.tup [.str c, .nil], w)
     | none => .ok (.tup [.str "", .str "ENOENT"], w))
  | _, "filepath.Join", [.str a, .str b], _, w => .ok (.str (a ++ "/" ++ b), w)
  | _, "filepath.Dir", [.str p], _, w => .ok (.str (dirOf p), w)
  | _, "bytes.TrimSpace", [.str s], _, w => .ok (.str (trim s), w)
  | _, "os.WriteFile", [.str p, .str b, _], _, w =>
    .ok (.nil, { files := setFile w.files p b, writes := w.writes ++ [(p, b)] })
  | 0, "copyCgroupPropertyFromParent", _, _, _ => .error "recursion fuel exhausted"
  | n + 1, "copyCgroupPropertyFromParent", [p, nm], _, w =>
    (match runFunc { ext := fext n, glob := fglob } Gen.C20.copyFromParent [p, nm] [] w 4000 with
     | .ok (v :: _, w') => .ok (v, w')
     | .ok ([], w') => .ok (.nil, w')
     | .error e => .error e)
  | _, name, _, _, _ => .error s!"unknown call {name}"

/-- the regenerated initCpuset on a group directory: (error?, files afterwards, writes made) -/
def genInit (path : String) (files : Files) : Except String (Bool × Files × List (String × String)) :=
  match runFunc { ext := fext 8, glob := fglob } Gen.C20.initCpuset [.str path] [] { files := files } 4000 with
  | .ok (v :: _, w) => .ok (!Val.beq v .nil, w.files, w.writes)
  | .ok ([], w) => .ok (false, w.files, w.writes)
  | .error e => .error e

/-! ### hand model -/

/-- copyCgroupPropertyFromParent: a file that already has a value is left alone; an empty one gets
the value of the nearest ancestor that has one (every empty ancestor on the way is filled too) -/
def copyH : Nat → Files → String → String → Option (Files × List (String × String))
  | 0, _, _, _ => none
  | n + 1, fs, path, name =>
    match lookup fs (path ++ "/" ++ name) with
    | none => none
    | some c =>
      if !blank c then some (fs, [])
      else match copyH n fs (dirOf path) name with
        | none => none
        | some (fs1, w1) =>
          match lookup fs1 (dirOf path ++ "/" ++ name) with
          | none => none
          | some pc => some (setFile fs1 (path ++ "/" ++ name) pc, w1 ++ [(path ++ "/" ++ name, pc)])

def initH (fs : Files) (path : String) : Option (Files × List (String × String)) :=
  match copyH 9 fs path "cpuset.cpus" with
  | none => none
  | some (fs1, w1) =>
    match copyH 9 fs1 path "cpuset.mems" with
    | none => none
    | some (fs2, w2) => some (fs2, w1 ++ w2)

/-- regenerated code and hand model agree on a tree -/
def agrees (path : String) (fs : Files) : Bool :=
  match genInit path fs, initH fs path with
  | .ok (false, f, w), some (f', w') => f == f' && w == w'
  | .ok (true, _, _), none => true
  | _, _ => false

end GoSandbox.Model.CpusetInherit
