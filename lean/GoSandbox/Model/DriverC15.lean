import GoSandbox.Base.Proto
import GoSandbox.Model.GetString
import GoSandbox.Model.GetStringGen
namespace GoSandbox.Driver.C15
open GoSandbox.Proto GoSandbox.Model.GetString GoSandbox.Model.GetStringGen

/-- memory of the differential: `npages` pages from offset 0, page i readable iff bit i,
every byte = `fill` except the NULs at the listed offsets; beyond the region: unmapped. -/
def mkMem (P : Nat) (mapped : List Bool) (fill : Nat) (nuls : List Nat) : Mem :=
  { P := P, mapped := fun pg => mapped.getD pg false, byte := fun a => if nuls.contains a then 0 else fill }

def handle : List String → Option String
  | ["c15.getstring", P, pm, mapped, fill, nuls, off] => do
    let m := mkMem (← P.toNat?) (mapped.toList.map (· == '1')) (← fill.toNat?) (← natList nuls)
    match getString m (← off.toNat?) (← pm.toNat?) with
    | .ok s => some s!"ok {s.length} {hex ((s.take 8).map Char.ofNat)}"
    | .error _ => some "panic"
  | ["c15.clen", bs] => do
    let b ← natList bs
    let g1 := match genClen b with | .ok n => toString n | .error e => "error:" ++ e
    let g2 := match genHasNull b with | .ok r => bool01 r | .error e => "error:" ++ e
    some s!"{g1} {g2} {clen b} {bool01 (hasNull b)}"
  | _ => none

end GoSandbox.Driver.C15
