import GoSandbox.Base.Proto
import GoSandbox.Model.ForkSkeleton
import GoSandbox.Model.ForkFail
namespace GoSandbox.Driver.C04
open GoSandbox.Proto GoSandbox.Model.ForkOpts GoSandbox.Model.ForkSkeleton GoSandbox.Model.ForkChildRun GoSandbox.GoLite

def bit (n i : Nat) : Bool := (n >>> i) % 2 == 1

/-- option set number `n` (bit vector) -/
def optsOf (n : Nat) : Opts :=
  { cred := bit n 0, noSetGroups := bit n 1, gidMappings := bit n 2, enableSetgroups := bit n 3, dropCaps := bit n 4, nnp := bit n 5,
    seccomp := bit n 6, ptrace := bit n 7, stopBefore := bit n 8, syncFunc := bit n 9, ucas := bit n 10, newUser := bit n 11,
    newPid := bit n 12, newNs := bit n 13, newUts := bit n 14, newIpc := bit n 15, newNet := bit n 16, newCgroup := bit n 17,
    pivot := bit n 18, cgroupFd := bit n 19, ctty := bit n 20, workdir := bit n 21, hostname := bit n 22, domainname := bit n 23,
    groups := if bit n 24 then 2 else 0, nMounts := if bit n 25 then 2 else 0, roBindMount := bit n 26,
    nRlimits := if bit n 27 then 3 else 0, execFile := if bit n 28 then 7 else 0 }

def showSteps (l : List Step) : String := joinList (l.map (fun s => (reprStr s).replace "GoSandbox.Model.ForkSkeleton.Step." ""))

/-- clone flags the regenerated function passes to clone / clone3 -/
def genCloneFlags (o : Opts) : Int :=
  match runChild (launchOf o) { fds := [(100, 50, true), (101, 50, true)], pipeIn := [0, 0, 0] } with
  | .ok out => match out.w.trace.reverse.head? with
    | some s => (match s.args with
      | .int f :: _ => f
      | .strct fs :: _ => (match recGet fs "flags" with | some (.int f) => f | _ => -1)
      | _ => -1)
    | none => -1
  | .error _ => -2

def modelCloneFlags (o : Opts) : Int :=
  let ns := cloneFlags o
  let v := if usesVfork o then cNat "syscall.CLONE_VM" + cNat "syscall.CLONE_VFORK" else 0
  if o.cgroupFd then ns + v + cNat "unix.CLONE_INTO_CGROUP" else ns + v + cNat "syscall.SIGCHLD"

def handle : List String → Option String
  | ["c04.labels", n] => do
    let o := optsOf (← n.toNat?)
    let g := match genLabels o with | .ok l => showSteps l | .error e => "error:" ++ hex e.toList
    some s!"{g} {showSteps (skeleton o)} {genCloneFlags o} {modelCloneFlags o}"
  | _ => none

end GoSandbox.Driver.C04

namespace GoSandbox.Driver.C07
open GoSandbox.Proto GoSandbox.Model.ForkOpts GoSandbox.Model.ForkSkeleton GoSandbox.Model.ForkFail GoSandbox.Driver.C04

/-- `c07.fail n e`: inject errno e at every step k ≥ 1 of option set n; answer "<steps> <bad k list>" -/
def handle : List String → Option String
  | ["c07.fail", n, e] => do
    let o := optsOf (← n.toNat?)
    let e ← intOf e
    let len := (skeleton o).length
    let bad := ((List.range len).drop 1).filter (fun k => !failOk o k e)
    let detail := match bad.head? with
      | some k => (match runFail o k e with
        | .ok r => s!"k={k} step={reprStr ((skeleton o).getD k .getpid)} execed={r.execed} exit={repr r.exitCode} reported={repr r.reported} expectloc={expectLocName o ((skeleton o).getD k .getpid)}"
        | .error er => s!"k={k} error {er}")
      | none => ""
    some s!"{len} {joinList (bad.map toString)} {hex detail.toList}"
  | _ => none
end GoSandbox.Driver.C07
