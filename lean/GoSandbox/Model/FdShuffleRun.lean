/- the descriptor shuffle of the regenerated forkAndExecInChild, run on an abstract descriptor table -/
import GoSandbox.Model.ForkOpts
namespace GoSandbox.Model.FdShuffleRun
open GoSandbox.Model.ForkOpts GoSandbox.Model.ForkChildRun GoSandbox.GoLite

structure ShuffleOut where
  table : List (Nat × Nat)        -- descriptor table at exec (fd, file id), sorted
  execFdFile : Option Nat         -- file id behind the descriptor handed to execveat (none: execve by path)
  callerExec : Int                -- r.ExecFile as the child left it
  exited : Option Int
deriving Repr

/-- run the regenerated child on a descriptor layout: every open descriptor `k` refers to file
`1000+k` and is close-on-exec (Go's convention for everything the launcher opened). -/
def shuffle (files : List Int) (p0 p1 exec : Nat) (openFds : List Nat) (vfork : Bool) : Except String ShuffleOut := do
  let o : Opts := { files := files, execFile := exec, syncFunc := !vfork }
  let w0 : KW := { fds := openFds.map (fun k => (k, 1000 + k, true)), pipeIn := [0, 0] }
  let out ← runChild (launchOf o p0 p1) w0
  -- the exec syscall is the last one; with ExecFile its first argument is the descriptor
  let execFile := match out.w.trace.head? with
    | some s => if s.nr == cNat "unix.SYS_EXECVEAT" then
        (match s.args.head? with
         | some (.int fd) => (out.w.fds.get? fd.toNat).map (·.1)
         | _ => none) else none
    | none => none
  let callerExec := match out.rAfter with
    | .strct fs => (match recGet fs "ExecFile" with | some (.int e) => e | _ => -1)
    | _ => -1
  .ok ⟨sortFds (atExec out.w.fds), execFile, callerExec, out.w.exited⟩


def marker : Int := 2 ^ 64 - 1

/-- the property's oracle: descriptor i is the file of the i-th listed descriptor, nothing else -/
def expectTable (files : List Int) : List (Nat × Nat) :=
  (files.zipIdx.filter (fun p => p.1 != marker)).map (fun p => (p.2, 1000 + p.1.toNat))

def okLayout (files : List Int) (p0 p1 exec : Nat) (openFds : List Nat) (vfork : Bool) : Bool :=
  match shuffle files p0 p1 exec openFds vfork with
  | .ok r => r.table == expectTable files && r.exited.isNone &&
      (if exec > 0 then r.execFdFile == some (1000 + exec) else r.execFdFile.isNone) &&
      (!vfork || r.callerExec == Int.ofNat exec)
  | .error _ => false

end GoSandbox.Model.FdShuffleRun
