/- the descriptor shuffle of the regenerated forkAndExecInChild, run on an abstract descriptor table -/
import GoSandbox.Model.ForkOpts
import GoSandbox.Model.FdShuffle
namespace GoSandbox.Model.FdShuffleRun
open GoSandbox.Model.ForkOpts GoSandbox.Model.ForkChildRun GoSandbox.GoLite

structure ShuffleOut where
  table : List (Nat × Nat)        -- descriptor table at exec (fd, file id), sorted
  execFdFile : Option Nat         -- file id behind the descriptor handed to execveat (none: execve by path)
  callerExec : Int                -- r.ExecFile as the child left it
  exited : Option Int
deriving Repr

/-- run the regenerated child on a descriptor layout: every open descriptor `k` refers to file
`1000+k` and is close-on-exec (Go's convention for everything the launcher opened), except the
numbers in `inh`, which the launcher holds inheritable (its own stdio, or whatever it inherited). -/
def shuffle (files : List Int) (p0 p1 exec : Nat) (openFds : List Nat) (vfork : Bool) (inh : List Nat := []) : Except String ShuffleOut := do
  let o : Opts := { files := files, execFile := exec, syncFunc := !vfork }
  let w0 : KW := { fds := openFds.map (fun k => (k, 1000 + k, !inh.contains k)), pipeIn := [0, 0] }
  let out ← runChild (launchOf o p0 p1) w0
  -- the exec syscall is the last one; with ExecFile its first argument is the descriptor
  let execFile := match out.w.trace.head? with
    | some s => if s.nr == cNat "unix.SYS_EXECVEAT" then
        (match s.args.head? with
         | some (.int fd) => (out.w.fds.get? fd.toNat).map (·.1)
         | _ => none) else none
    | none => none
  let callerExec := match out.rAfter with
    | .strct fs => (match recGet fs "ExecFile" with | some (.int e) => e | _ => -1)
    | _ => -1
  .ok ⟨sortFds (atExec out.w.fds), execFile, callerExec, out.w.exited⟩


def marker : Int := 2 ^ 64 - 1

/-- the property's oracle: descriptor i is the file of the i-th listed descriptor, nothing else -/
def expectTable (files : List Int) : List (Nat × Nat) :=
  (files.zipIdx.filter (fun p => p.1 != marker)).map (fun p => (p.2, 1000 + p.1.toNat))

def okLayout (files : List Int) (p0 p1 exec : Nat) (openFds : List Nat) (vfork : Bool) (inh : List Nat := []) : Bool :=
  match shuffle files p0 p1 exec openFds vfork inh with
  | .ok r => r.table == expectTable files && r.exited.isNone &&
      (if exec > 0 then r.execFdFile == some (1000 + exec) else r.execFdFile.isNone) &&
      (!vfork || r.callerExec == Int.ofNat exec)
  | .error _ => false

/-! ### the hand model (Model/FdShuffle.lean) on the same layouts -/

/-- the hand model's answer for a layout: (descriptor table after exec, file behind the exec descriptor) -/
def handShuffle (files : List Int) (p1 exec : Nat) (openFds : List Nat) (inh : List Nat := []) : List (Nat × Nat) × Option Nat :=
  let t : FdShuffle.Table := fun k => if openFds.contains k then some (1000 + k, !inh.contains k) else none
  let fl : List (Option Nat) := files.map (fun f => if f == marker then none else some f.toNat)
  let o := FdShuffle.shuffle t fl p1 (if exec > 0 then some exec else none)
  let hi := (openFds.foldl max 0) + files.length + 8
  ((List.range hi).filterMap (fun k => (FdShuffle.atExec o.t k).map (fun f => (k, f))), o.exec.bind (FdShuffle.fileAt o.t))

/-- regenerated code and hand model agree on a layout -/
def handAgrees (files : List Int) (p0 p1 exec : Nat) (openFds : List Nat) (vfork : Bool) (inh : List Nat := []) : Bool :=
  match shuffle files p0 p1 exec openFds vfork inh with
  | .ok r => r.table == (handShuffle files p1 exec openFds inh).1 && r.execFdFile == (handShuffle files p1 exec openFds inh).2
  | .error _ => false

end GoSandbox.Model.FdShuffleRun
