import GoSandbox.Base.Proto
import GoSandbox.Model.Batch
namespace GoSandbox.Driver.C14
open GoSandbox.Proto GoSandbox.Model.Batch

def cmdOf (i : Nat) : String → Option OpenCmd
  | "regular" => some ⟨s!"/p{i}", .regular, false, false, false⟩
  | "absent" => some ⟨s!"/p{i}", .absent, false, false, false⟩
  | "symlink" => some ⟨s!"/p{i}", .symlink, false, false, false⟩
  | "dangling" => some ⟨s!"/p{i}", .symlink, false, false, false⟩
  | "fifo" => some ⟨s!"/p{i}", .fifo, false, false, false⟩
  | "dir" => some ⟨s!"/p{i}", .dir, false, false, false⟩
  | "socket" => some ⟨s!"/p{i}", .socket, false, false, false⟩
  | "mkdirall" => some ⟨s!"/p{i}", .absent, true, false, false⟩
  | "nodir" => some ⟨s!"/p{i}", .absent, false, false, true⟩
  | _ => none

/-- `c14.batch <kinds>`: the host's per-item success pattern for an honest container -/
def handle : List String → Option String
  | ["c14.batch", ks] => do
    let cmds ← ((splitList ks).zipIdx.mapM (fun (k, i) => cmdOf i k))
    let r := containerOpen cmds 10
    match (hostOpen (cmds.map (·.path)) r.1 r.2).1 with
    | some rs => some (joinList (rs.map (fun x => match x with | .file _ _ => "1" | .err _ => "0")))
    | none => some "rejected"
  | _ => none

end GoSandbox.Driver.C14
