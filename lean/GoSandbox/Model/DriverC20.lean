import GoSandbox.Base.Proto
import GoSandbox.Model.Cgroup
namespace GoSandbox.Driver.C20
open GoSandbox.Proto GoSandbox.Model.Cgroup

def showO : Option Nat → String
  | some n => toString n
  | none => "missing"

/-- `c20.cpustat x<hex>`: hand model and the regenerated V2.CPUUsage must agree -/
def handle : List String → Option String
  | ["c20.cpustat", c] => do
    let cs ← unhex c
    match genCpuUsage cs with
    | .ok g => if g == cpuUsage cs then some (showO g) else some s!"model-split hand={showO (cpuUsage cs)} gen={showO g}"
    | .error e => some s!"gen-error {e}"
  | ["c20.ensure", path, dirs] => do
    let p ← unhex path
    let ds ← unhexList dirs
    match genEnsure (String.ofList p) (ds.map String.ofList) with
    | .ok (r, log) => some s!"{r} {log.length}"
    | .error e => some s!"gen-error {e}"
  | ["c20.hist", ops, pars] => do
    let parList ← (splitList pars).mapM (fun (e : String) => match e.splitOn "=" with
      | [a, b] => do some (← a.toNat?, ← b.toNat?)
      | _ => none)
    let par : Dir → Option Dir := fun d => (parList.find? (fun p => p.1 == d)).map (·.2)
    let ops ← (splitList ops).mapM (fun (o : String) =>
      match o.toList with
      | 'm' :: r => (match (String.ofList r).splitOn ":" with
          | [h, d] => do some (OOp.mk (← h.toNat?) (← d.toNat?))
          | _ => none)
      | 'x' :: r => (String.ofList r).toNat?.map OOp.destroy
      | 'e' :: r => (String.ofList r).toNat?.map OOp.extMk
      | _ => none)
    let (_, outs) := ops.foldl (fun (acc : OSt × List String) op =>
      let s' := ostep acc.1 op
      let o := match op with
        | .mk h _ => if (s'.hs h).existing then "E" else "C"
        | .destroy _ => "R" ++ String.intercalate "+" ((s'.removed.take (s'.removed.length - acc.1.removed.length)).map (fun e => toString e.2.1))
        | _ => "-"
      (s', acc.2 ++ [o])) (({ par := par } : OSt), [])
    some (String.intercalate "," outs)
  | _ => none

end GoSandbox.Driver.C20
