/-
Model of runner/ptrace/filehandler: FileSet.IsInSetSmart, dirname, FileSets.Is*File,
Handler.Check*, SyscallCounter.Check.

Go strings are modelled as `List Char` (one Char per byte); a Go `map[string]bool`
used as a set is a `List Str` with membership; `map[string]int` is an association list.
Core-only (the driver links this file).
-/
namespace GoSandbox.Model.FileSet

abbrev Str := List Char

/-- Go: `dirname(path)`: `path[:LastIndex(path,"/")]`, or "" when there is no slash. -/
def dirname : Str → Str
  | [] => []
  | c :: cs => if '/' ∈ cs then c :: dirname cs else []

structure FileSet where
  set : List Str
  systemRoot : Bool
deriving Repr

/-- The `for level = 0; name != ""; level++` loop of `IsInSetSmart`.
`none`  = returned `true` from inside the loop;
`some l` = loop ended with `level = l`.
Fuel is structural; `fuel ≥ name.length` always suffices (`dirname` shortens). -/
def loop (S : List Str) : Nat → Nat → Str → Option Nat
  | 0, level, _ => some level
  | fuel + 1, level, name =>
    if name = [] then some level
    else if level = 1 ∧ (name ++ ['/', '*']) ∈ S then none
    else if (name ++ ['/']) ∈ S then none
    else loop S fuel (level + 1) (dirname name)

/-- Go: `(*FileSet).IsInSetSmart(name)`. -/
def inSetSmart (s : FileSet) (name : Str) : Bool :=
  if name ∈ s.set then true
  else if name = ['/'] ∧ s.systemRoot then true
  else match loop s.set name.length 0 name with
    | none => true
    | some level =>
      if level = 1 ∧ ['/', '*'] ∈ s.set then true
      else if ['/'] ∈ s.set then true
      else false

/-- Go: `(*FileSet).Add`. -/
def add (s : FileSet) (name : Str) : FileSet :=
  if name = ['/'] then { s with systemRoot := true } else { s with set := name :: s.set }

structure FileSets where
  writable : FileSet
  readable : FileSet
  statable : FileSet
  softBan : FileSet
deriving Repr

/-- `rp` stands for `realPath` (filepath.EvalSymlinks, "" on error): a parameter. -/
def isWritable (fs : FileSets) (rp : Str → Str) (n : Str) : Bool :=
  inSetSmart fs.writable n || inSetSmart fs.writable (rp n)
def isReadable (fs : FileSets) (rp : Str → Str) (n : Str) : Bool :=
  isWritable fs rp n || inSetSmart fs.readable n || inSetSmart fs.readable (rp n)
def isStatable (fs : FileSets) (rp : Str → Str) (n : Str) : Bool :=
  isReadable fs rp n || inSetSmart fs.statable n || inSetSmart fs.statable (rp n)
def isSoftBan (fs : FileSets) (rp : Str → Str) (n : Str) : Bool :=
  inSetSmart fs.softBan n || inSetSmart fs.softBan (rp n)

inductive Action | allow | ban | kill
deriving DecidableEq, Repr

inductive Cls | write | read | stat
deriving DecidableEq, Repr

def onDgs (fs : FileSets) (rp : Str → Str) (n : Str) : Action :=
  if isSoftBan fs rp n then .ban else .kill

/-- Go: `Handler.CheckWrite/CheckRead/CheckStat`. -/
def check (fs : FileSets) (rp : Str → Str) (c : Cls) (n : Str) : Action :=
  match c with
  | .write => if isWritable fs rp n then .allow else onDgs fs rp n
  | .read  => if isReadable fs rp n then .allow else onDgs fs rp n
  | .stat  => if isStatable fs rp n then .allow else onDgs fs rp n

/-! ### SyscallCounter -/

abbrev Counter := List (Str × Int)

def Counter.get? (c : Counter) (k : Str) : Option Int :=
  match c with
  | [] => none
  | (k', v) :: rest => if k' = k then some v else Counter.get? rest k

def Counter.set (c : Counter) (k : Str) (v : Int) : Counter :=
  match c with
  | [] => [(k, v)]
  | (k', v') :: rest => if k' = k then (k, v) :: rest else (k', v') :: Counter.set rest k v

/-- Go: `SyscallCounter.Check(name) (inside, allow)`; also returns the updated map. -/
def counterCheck (c : Counter) (name : Str) : Counter × Bool × Bool :=
  match c.get? name with
  | some n => (c.set name (n - 1), true, if n ≤ 1 then false else true)
  | none => (c, false, true)

/-- Go: `Handler.CheckSyscall`. -/
def checkSyscall (c : Counter) (name : Str) : Counter × Action :=
  match counterCheck c name with
  | (c', true, true) => (c', .allow)
  | (c', true, false) => (c', .kill)
  | (c', false, _) => (c', .ban)

end GoSandbox.Model.FileSet
