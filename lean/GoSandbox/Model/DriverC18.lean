import GoSandbox.Base.Proto
import GoSandbox.Model.FileSet
namespace GoSandbox.Driver.C18
open GoSandbox.Proto GoSandbox.Model.FileSet

def actStr : Action → String
  | .allow => "allow" | .ban => "ban" | .kill => "kill"

def clsOf : String → Option Cls
  | "w" => some .write | "r" => some .read | "s" => some .stat | _ => none

def mkSet (root : Char) (entries : String) : Option FileSet := do
  let es ← unhexList entries
  pure ⟨es, root = '1'⟩

/-- `query = cls:path:rp` -/
def parseQuery (q : String) : Option (Cls × Str × Str) :=
  match q.splitOn ":" with
  | [c, p, r] => do pure (← clsOf c, ← unhex p, ← unhex r)
  | _ => none

def lookupRp (tbl : List (Str × Str)) (p : Str) : Str :=
  match tbl.find? (fun x => x.1 = p) with
  | some x => x.2
  | none => []

def handle : List String → Option String
  | ["c18.inset", root, entries, paths] => do
    let s ← mkSet (root.toList.headD '0') entries
    let ps ← unhexList paths
    pure (joinList (ps.map (fun p => bool01 (inSetSmart s p))))
  | ["c18.check", roots, w, r, s, b, queries] => do
    match roots.toList with
    | [rw, rr, rs, rb] =>
      let fs : FileSets := ⟨← mkSet rw w, ← mkSet rr r, ← mkSet rs s, ← mkSet rb b⟩
      let qs ← (splitList queries).mapM parseQuery
      let tbl := qs.map (fun q => (q.2.1, q.2.2))
      pure (joinList (qs.map (fun q => actStr (check fs (lookupRp tbl) q.1 q.2.1))))
    | _ => none
  | ["c18.counter", table, hist] => do
    let kvs ← (splitList table).mapM (fun kv => match kv.splitOn "=" with
      | [k, v] => do pure (← unhex k, ← intOf v)
      | _ => none)
    let names ← unhexList hist
    let rec go (c : Counter) : List Str → List String
      | [] => []
      | n :: rest => let r := checkSyscall c n; actStr r.2 :: go r.1 rest
    pure (joinList (go kvs names))
  | _ => none

end GoSandbox.Driver.C18
