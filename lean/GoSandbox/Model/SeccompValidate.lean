/-
A translation validator for seccomp filters: `validate prog pol` runs the program on a finite set
of representative (nr, arch) pairs; `Props/C01.C01_validator_sound` proves that a `true` answer
covers all 2^32 numbers × all architecture tags × arbitrary argument words.  Core-only.
-/
import GoSandbox.Lemmas.BPF
namespace GoSandbox.Model.SeccompValidate
open GoSandbox.Kernel.BPF GoSandbox.Spec.SeccompPolicy GoSandbox.Lemmas.BPF

def cutConsts (prog : List Insn) (p : Policy) : List Nat := dedup (consts prog ++ specConsts p)

def zeroArgs : Nat → Nat := fun _ => 0

/-- the first representative pair on which the program disagrees with the policy, if any -/
def firstBad (prog : List Insn) (p : Policy) : Option (Nat × Nat) :=
  let R := reps (cutConsts prog p)
  R.findSome? (fun nr => R.findSome? (fun arch =>
    if exec prog ⟨nr, arch, zeroArgs⟩ == some (expected p ⟨nr, arch, zeroArgs⟩) then none else some (nr, arch)))

def validate (prog : List Insn) (p : Policy) : Bool :=
  wf prog &&
  (let R := reps (cutConsts prog p)
   R.all (fun nr => R.all (fun arch => exec prog ⟨nr, arch, zeroArgs⟩ == some (expected p ⟨nr, arch, zeroArgs⟩))))

end GoSandbox.Model.SeccompValidate
