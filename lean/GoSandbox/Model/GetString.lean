/-
Model of ptracer: clen, hasNull, vmReadStr, Context.GetString over an abstract tracee address
space (Kernel assumption: mapping is page-granular; process_vm_readv of one iovec that lies inside
one page transfers all of it or fails with EFAULT; PTRACE_PEEKDATA reads aligned words).
Go slices are lists; a slice expression out of range is `Except.error` (a Go panic).
Core-only.
-/
namespace GoSandbox.Model.GetString

/-- Go: `clen(b)` *after the fix*: index of the first NUL, or `len(b)`. -/
def clen : List Nat → Nat
  | [] => 0
  | b :: rest => if b = 0 then 0 else clen rest + 1

/-- Go: `clen(b)` on the pinned tree: `len(b)+1` when there is no NUL. -/
def clenOld : List Nat → Nat
  | [] => 1
  | b :: rest => if b = 0 then 0 else clenOld rest + 1

def hasNull (b : List Nat) : Bool := b.any (· == 0)

/-- Go `b[:n]`: panics when n > len(b) (cap = len for these buffers). -/
def sliceTo (b : List Nat) (n : Nat) : Except String (List Nat) :=
  if n ≤ b.length then .ok (b.take n)
  else .error s!"panic: slice bounds out of range [:{n}] with capacity {b.length}"

structure Mem where
  P : Nat                 -- page size
  mapped : Nat → Bool     -- is page number mapped/readable
  byte : Nat → Nat        -- content

def Mem.readable (m : Mem) (a : Nat) : Bool := m.mapped (a / m.P)

/-- bytes [a, a+n) as the tracee holds them -/
def Mem.bytes (m : Mem) (a n : Nat) : List Nat := (List.range n).map (fun i => m.byte (a + i))

/-- `vmRead`: one iovec inside one page: everything or EFAULT -/
def vmRead (m : Mem) (a n : Nat) : Option (List Nat) :=
  if m.readable a then some (m.bytes a n) else none

/-- the loop of `vmReadStr`; returns (failed with EFAULT?, bytes written to the front of buff). -/
def readLoop (m : Mem) (addr : Nat) : Nat → Nat → Nat → Nat → List Nat → Bool × List Nat
  | 0, _, _, _, acc => (false, acc)
  | fuel + 1, total, rem, next, acc =>
    if rem = 0 then (false, acc) else
    let next := if rem < next then rem else next
    match vmRead m (addr + total) next with
    | none => (true, acc)
    | some chunk =>
      if hasNull chunk then (false, acc ++ chunk)
      else readLoop m addr fuel (total + next) (rem - next) m.P (acc ++ chunk)

/-- Go: `vmReadStr(pid, addr, buff)` with `len(buff) = pathMax`. -/
def vmReadStr (m : Mem) (addr pathMax : Nat) : Bool × List Nat :=
  let next := m.P - addr % m.P
  let next := if next = 0 then m.P else next
  readLoop m addr (pathMax + 1) 0 pathMax next []

/-- what PTRACE_PEEKDATA leaves in the buffer: the readable prefix (word = page granularity here) -/
def peekPrefix (m : Mem) (addr pathMax : Nat) : List Nat :=
  ((List.range pathMax).takeWhile (fun i => m.readable (addr + i))).map (fun i => m.byte (addr + i))

def pad (l : List Nat) (n : Nat) : List Nat := l ++ List.replicate (n - l.length) 0

/-- Go: `(*Context).GetString(addr)`, parametric in the `clen` used. -/
def getStringWith (cl : List Nat → Nat) (m : Mem) (addr pathMax : Nat) : Except String (List Nat) :=
  let (failed, acc) := vmReadStr m addr pathMax
  let buff := if failed then pad (peekPrefix m addr pathMax) pathMax else pad acc pathMax
  sliceTo buff (cl buff)

def getString := getStringWith clen
def getStringOld := getStringWith clenOld

end GoSandbox.Model.GetString
