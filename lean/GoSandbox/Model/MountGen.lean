/-
C05: the operation sequences of the regenerated code.
* the mount table is built by the regenerated Builder methods (WithBind/WithTmpfs/WithProcRW),
  pathPrefix and isBindMountFileOrNotExists (Gen.C05) — so the flag words are the code's;
* raw child: Gen.ForkChild.forkAndExecInChild run by Go-lite (ForkChildRun) — its syscall trace;
* container: Gen.C05.initFileSystem with Mount.Mount, ensureMountTargetExists, maskPath;
both traces are read as `MountNS.Op` lists and compared with the hand skeleton `opsFor`.
Core-only.
-/
import GoSandbox.Model.MountNS
import GoSandbox.Model.ForkOpts
import GoSandbox.Model.PathResolve
import GoSandbox.Gen.C05
namespace GoSandbox.Model.MountGen
open GoSandbox.GoLite GoSandbox.Model.MountNS GoSandbox.Model.ForkChildRun

inductive Entry
  | bind (src tgt : String) (ro : Bool) (isFile : Bool)
  | tmpfs (tgt : String)
  | proc (rw : Bool)
deriving Repr, DecidableEq

def comps (s : String) : Path := (PathResolve.splitSlash s).filter (fun c => c != "" && c != ".")

/-- the table the property speaks about -/
def specOf : Entry → MSpec
  | .bind src tgt ro isFile => ⟨comps tgt, .host src, true, ro, isFile⟩
  | .tmpfs tgt => ⟨comps tgt, .tmpfs, false, false, false⟩
  | .proc rw => ⟨["proc"], .proc, false, !rw, false⟩

structure MW where
  files : List String := []                 -- host sources that are regular files
  srcFlags : List (String × Nat) := []      -- statfs flags of sources
  maskDirs : List String := []              -- mask targets that are directories inside the sandbox
  mountFails : List String := []            -- targets on which every mount attempt fails (EACCES)
  log : List (String × List Val) := []
  pending : List (String × Val) := []

def cg (n : String) : Option Val :=
  match n with
  | "bind" => some (.int Gen.Consts.mount_bind)
  | "mFlag" => some (.int Gen.Consts.mount_mFlag)
  | "os.ErrNotExist" => some (.str "ENOENT")
  | "syscall.ENOTDIR" => some (.str "ENOTDIR")
  | _ => (Gen.Consts.table.find? (fun p => p.1 == n)).map (fun p => Val.int p.2)

def flushM (w : MW) : List (String × Val) × MW := (w.pending, { w with pending := [] })

def rec (w : MW) (n : String) (a : List Val) : MW := { w with log := w.log ++ [(n, a)] }

def isFlag (v : Val) (n : String) : Bool :=
  match v, cg n with
  | .int f, some (.int b) => f.toNat &&& b.toNat != 0
  | _, _ => false

/-- externals shared by all levels -/
def ext0 (name : String) (args : List Val) (env : Env) (w : MW) : Except String (Val × MW) :=
  match name, args with
  | "os.Stat", [.str p] => .ok (.tup [.strct [("#isDir", .bool (!w.files.contains p))], .nil], w)
  | "fi.IsDir", [] => (match env.get? "fi" with
      | some (.strct fs) => .ok ((recGet fs "#isDir").getD (.bool true), w)
      | _ => .error "fi")
  | "os.IsNotExist", [e] => .ok (.bool (Val.beq e (.str "ENOENT")), w)
  | "m.IsBindMount", [] => (match env.get? "m" with
      | some (.strct fs) => .ok (.bool (isFlag ((recGet fs "Flags").getD (.int 0)) "syscall.MS_BIND"), w)
      | _ => .error "m")
  | "filepath.Dir", [.str s] => .ok (.str (PathResolve.dir s), w)
  | "os.MkdirAll", a => .ok (.nil, rec w "mkdirall" a)
  | "os.Mkdir", a => .ok (.nil, rec w "mkdir" a)
  | "syscall.Mknod", a => .ok (.nil, rec w "mknod" a)
  | "syscall.Chdir", a => .ok (.nil, rec w "chdir" a)
  | "syscall.PivotRoot", a => .ok (.nil, rec w "pivot_root" a)
  | "syscall.Unmount", a => .ok (.nil, rec w "umount2" a)
  | "os.Remove", a => .ok (.nil, rec w "remove" a)
  | "os.Symlink", a => .ok (.nil, rec w "symlink" a)
  | "syscall.Mount", [src, .str tgt, fst, fl, d] =>
    -- binding /dev/null on a directory fails with ENOTDIR
    if w.mountFails.contains tgt then .ok (.str "EACCES", rec w "mount-eacces" [src, .str tgt, fst, fl, d])
    else if Val.beq src (.str "/dev/null") && w.maskDirs.contains tgt then .ok (.str "ENOTDIR", rec w "mount-enotdir" [src, .str tgt, fst, fl, d])
    else .ok (.nil, rec w "mount" [src, .str tgt, fst, fl, d])
  | "syscall.Statfs", [.str src, .strct [("#ref", .str var)]] =>
    let f := match w.srcFlags.find? (fun e => e.1 == src) with | some e => e.2 | none => 0
    .ok (.nil, { w with pending := [(var, .strct [("Flags", .int f)])] })
  | "fmt.Errorf", _ => .ok (.str "error", w)
  | "errors.Is", [a, b] => .ok (.bool (Val.beq a b), w)
  | "#zero", _ => .ok (.strct [("Flags", .int 0)], w)
  | _, _ => .error s!"unknown call {name}"

def cfg0 : Cfg MW := { ext := ext0, glob := cg, flush := flushM }

def call0 (cfg : Cfg MW) (f : Func) (args : List Val) (w : MW) (fuel : Nat := 3000) : Except String (Option (List Val) × MW) :=
  match runBody cfg f.results f.body ((f.params.zip args).reverse) w fuel with
  | .ok (r, _, w) => .ok (r, w)
  | .error e => .error e

def one (r : Option (List Val)) : Except String Val :=
  match r with | some [v] => .ok v | _ => .error "no single result"

def ext1 (name : String) (args : List Val) (env : Env) (w : MW) : Except String (Val × MW) :=
  match name with
  | "ensureMountTargetExists" => do let (r, w) ← call0 cfg0 Gen.C05.ensureMountTargetExists args w; .ok (← one r, w)
  | _ => ext0 name args env w

def cfg1 : Cfg MW := { ext := ext1, glob := cg, flush := flushM }

def ext2 (name : String) (args : List Val) (env : Env) (w : MW) : Except String (Val × MW) :=
  match name with
  | "m.Mount" => do
    let m := (env.get? "m").getD .nil
    let (r, w) ← call0 cfg1 Gen.C05.mountMount [m] w
    .ok (← one r, w)
  | "maskPath" => do let (r, w) ← call0 cfg0 Gen.C05.maskPath args w; .ok (← one r, w)
  | _ => ext0 name args env w

def cfg2 : Cfg MW := { ext := ext2, glob := cg, flush := flushM }

/-! ### the table through the regenerated builder -/

def builderStep (b : Val) (e : Entry) : Except String Val := do
  let run (f : Func) (args : List Val) : Except String Val := do
    let (r, _) ← call0 cfg0 f (b :: args) {}
    one r
  match e with
  | .bind src tgt ro _ => run Gen.C05.withBind [.str src, .str tgt, .bool ro]
  | .tmpfs tgt => run Gen.C05.withTmpfs [.str tgt, .str ""]
  | .proc rw => run Gen.C05.withProcRW [.bool rw]

/-- a composite literal leaves the fields it does not name at their zero value -/
def fillMount (m : Val) : Val :=
  match m with
  | .strct fs => .strct (["Source", "Target", "FsType", "Data"].foldl (fun acc f => if (recGet acc f).isNone then acc ++ [(f, .str "")] else acc) fs)
  | v => v

def builtMounts (es : List Entry) : Except String (List Val) := do
  let b ← es.foldlM builderStep (.strct [("Mounts", .list [])])
  match b with
  | .strct fs => (match recGet fs "Mounts" with
      | some (.list l) => .ok (l.map fillMount)
      | _ => .error "Mounts")
  | _ => .error "builder"

def fieldD (m : Val) (f : String) (d : Val) : Val :=
  match m with | .strct fs => (recGet fs f).getD d | _ => d

/-- Mount → SyscallParams as Build does (ToSyscall keeps the strings; Prefixes = pathPrefix(Target);
MakeNod = isBindMountFileOrNotExists) -/
def toSyscall (w : MW) (m : Val) : Except String Val := do
  let tgt := fieldD m "Target" (.str "")
  let (pr, _) ← call0 cfg0 Gen.C05.pathPrefix [tgt] w
  let prefixes ← one pr
  let (mk, _) ← call0 cfg0 Gen.C05.isBindMountFileOrNotExists [m] w
  let mknod := match mk with | some (b :: _) => b | _ => .bool false
  let data := match fieldD m "Data" (.str "") with | .str "" => Val.nil | d => d
  .ok (.strct [("Source", fieldD m "Source" (.str "")), ("Target", tgt), ("FsType", fieldD m "FsType" (.str "")),
    ("Data", data), ("Flags", fieldD m "Flags" (.int 0)), ("Prefixes", prefixes), ("MakeNod", mknod)])

/-! ### reading a trace as operations -/

def sOf : Val → String
  | .str s => s
  | .list [.str s] => s
  | _ => ""

def fsOf (src fst : String) (bind : Bool) : Fs :=
  if bind then .host src else if fst == "tmpfs" then .tmpfs else if fst == "proc" then .proc else .host ("?" ++ fst)

def mountOp (root : String) (src tgt fst : String) (fl : Val) : List Op :=
  let bind := isFlag fl "syscall.MS_BIND"
  let ro := isFlag fl "syscall.MS_RDONLY"
  if isFlag fl "syscall.MS_REMOUNT" then (if tgt == "/" then [.remountRootRo] else [.remount (comps tgt) bind ro])
  else if tgt == root then [.mountRoot]
  else if src == "none" then
    -- propagation change of the whole tree: only "recursively private" cuts the namespace off from the host's events
    (if tgt == "/" && Val.beq fl (.int (Gen.Consts.syscall_MS_REC + Gen.Consts.syscall_MS_PRIVATE)) then [.makePrivate]
     else [.mount (comps tgt) (.host "?propagation") false false])
  else if src == "/dev/null" && Val.beq fl ((cg "syscall.MS_BIND").getD .nil) then [.mount (comps tgt) .devnull true ro]   -- maskPath's bind (plain MS_BIND)
  else if fst == "tmpfs" && ro && (tgt.toList.head? == some '/') then [.mount (comps tgt) .emptyTmpfs false true]
  else [.mount (comps tgt) (fsOf src fst bind) bind ro]

def containerOps (root : String) (log : List (String × List Val)) : List Op :=
  log.flatMap (fun e => match e.1, e.2 with
    | "mkdirall", p :: _ => (prefixes (comps (sOf p))).map Op.mkdir
    | "mknod", p :: _ => [Op.mknod (comps (sOf p))]
    | "mkdir", _ => [Op.mkdirOld]
    | "pivot_root", _ => [Op.pivot]
    | "umount2", _ => [Op.umountOld]
    | "remove", _ => [Op.rmdirOld]
    | "symlink", [t, p] => [Op.symlink (comps (sOf p)) (sOf t)]
    | "mount", [src, tgt, fst, fl, _] => mountOp root (sOf src) (sOf tgt) (sOf fst) fl
    | _, _ => [])

def genContainerOps (es : List Entry) (symlinks : List (String × String)) (masks : List (String × Bool)) (w : MW := {}) :
    Except String (List Op) := do
  let ms ← builtMounts es
  let w := { w with files := w.files ++ es.filterMap (fun e => match e with | .bind s _ _ true => some s | _ => none),
                    maskDirs := masks.filterMap (fun m => if m.2 then some m.1 else none) }
  let c : Val := .strct [("ContainerRoot", .str "/croot"), ("Mounts", .list ms),
    ("SymbolicLinks", .list (symlinks.map (fun l => Val.strct [("LinkPath", .str l.1), ("Target", .str l.2)]))),
    ("MaskPaths", .list (masks.map (fun m => Val.str m.1)))]
  let (r, w) ← call0 cfg2 Gen.C05.initFileSystem [c] w 8000
  match r with
  | some [.nil] => .ok (containerOps "/croot" w.log)
  | _ => .error "initFileSystem failed"

/-- initFileSystem when a mask cannot be applied: `some true` = it returned nil (claimed success) -/
def genContainerMaskFailure (es : List Entry) (mask : String) : Except String Bool := do
  let ms ← builtMounts es
  let c : Val := .strct [("ContainerRoot", .str "/croot"), ("Mounts", .list ms), ("SymbolicLinks", .list []), ("MaskPaths", .list [.str mask])]
  let (r, _) ← call0 cfg2 Gen.C05.initFileSystem [c] { mountFails := [mask] } 8000
  match r with
  | some [.nil] => .ok true
  | some [_] => .ok false
  | _ => .error "initFileSystem: no result"

def rawOps (trace : List Sys) : List Op :=
  trace.flatMap (fun s =>
    let n := sysName s.nr
    let a (i : Nat) := s.args.getD i .nil
    match n with
    | "mkdirat" => if sOf (a 1) == "old_root" then [Op.mkdirOld] else [Op.mkdir (comps (sOf (a 1)))]
    | "mknodat" => [Op.mknod (comps (sOf (a 1)))]
    | "pivot_root" => [Op.pivot]
    | "umount2" => [Op.umountOld]
    | "unlinkat" => [Op.rmdirOld]
    | "mount" => mountOp "/root" (sOf (a 0)) (sOf (a 1)) (sOf (a 2)) (a 3)
    | _ => [])

def genRawOps (es : List Entry) (w : MW := {}) : Except String (List Op) := do
  let ms ← builtMounts es
  let w := { w with files := w.files ++ es.filterMap (fun e => match e with | .bind s _ _ true => some s | _ => none) }
  let sps ← ms.mapM (toSyscall w)
  let o : ForkOpts.Opts := { newNs := true, newUser := true, newPid := true, pivot := true }
  let r := match ForkOpts.rOf o with
    | .strct fs => Val.strct (recSet fs "Mounts" (.list sps))
    | v => v
  let l : Launch := { ForkOpts.launchOf o with r := r }
  match runChild l { fds := [(100, 50, true), (101, 50, true)], pipeIn := [0, 0, 0] } 40000 with
  | .ok out => .ok (rawOps out.w.trace.reverse)
  | .error e => .error e

def tableOf (es : List Entry) : List MSpec := es.map specOf

def extraOf (symlinks : List (String × String)) (masks : List (String × Bool)) : Extra :=
  { symlinks := symlinks.map (fun l => (comps l.1, l.2)), masks := masks.map (fun m => (comps m.1, m.2)) }

/-- flag words of the built mounts -/
def builtFlags (es : List Entry) : Except String (List Nat) := do
  let ms ← builtMounts es
  .ok (ms.map (fun m => match fieldD m "Flags" (.int 0) with | .int f => f.toNat | _ => 0))

end GoSandbox.Model.MountGen
