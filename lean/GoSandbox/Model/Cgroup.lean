/-
C20: cgroup handles. (a) cpu.stat parsing (hand model + Go-lite run of the regenerated V2.CPUUsage);
(b) creation of one group by concurrent creators at primitive granularity (stat/mkdir), with the
pinned tree's stat-then-MkdirAll and the repaired atomic mkdir; (c) Go-lite runs of EnsureDirExists
and Destroy.  Core-only.
-/
import GoSandbox.GoLite.Exec
import GoSandbox.Gen.C20
import GoSandbox.Model.PathResolve
namespace GoSandbox.Model.Cgroup
open GoSandbox.GoLite

/-! ### (a) cpu.stat -/

def isSpace (c : Char) : Bool := c == ' ' || c == '\t' || c == '\r'

def fields (l : List Char) : List (List Char) :=
  let rec go : List Char → List Char → List (List Char)
    | [], cur => if cur.isEmpty then [] else [cur.reverse]
    | c :: rest, cur => if isSpace c then (if cur.isEmpty then go rest [] else cur.reverse :: go rest []) else go rest (c :: cur)
  go l []

def lines (l : List Char) : List (List Char) :=
  let rec go : List Char → List Char → List (List Char)
    | [], cur => if cur.isEmpty then [] else [cur.reverse]
    | c :: rest, cur => if c == '\n' then cur.reverse :: go rest [] else go rest (c :: cur)
  go l []

def atoi (l : List Char) : Option Nat :=
  if l.isEmpty || !l.all Char.isDigit then none
  else some (l.foldl (fun acc c => acc * 10 + (c.toNat - '0'.toNat)) 0)

/-- Go: `(*V2).CPUUsage`: the first line with exactly two fields whose first is "usage_usec";
microseconds are converted to nanoseconds -/
def cpuUsage (content : List Char) : Option Nat :=
  match (lines content).find? (fun ln => match fields ln with | [k, _] => k == "usage_usec".toList | _ => false) with
  | some ln => (match fields ln with | [_, v] => (atoi v).map (· * 1000) | _ => none)
  | none => none

structure SW where
  pending : List (List Char) := []
  cur : List Char := []

def sext (name : String) (args : List Val) (_ : Env) (w : SW) : Except String (Val × SW) :=
  match name, args with
  | "c.ReadFile", _ => .ok (.tup [.str "content", .nil], w)
  | "bytes.NewReader", [v] => .ok (v, w)
  | "bufio.NewScanner", _ => .ok (.str "scanner", w)
  | "s.Scan", [] => (match w.pending with
      | [] => .ok (.bool false, w)
      | l :: rest => .ok (.bool true, { pending := rest, cur := l }))
  | "s.Text", [] => .ok (.str (String.ofList w.cur), w)
  | "strings.Fields", [.str s] => .ok (.list ((fields s.toList).map (fun f => Val.str (String.ofList f))), w)
  | "strconv.Atoi", [.str s] => (match atoi s.toList with
      | some n => .ok (.tup [.int n, .nil], w)
      | none => .ok (.tup [.int 0, .str "invalid syntax"], w))
  | _, _ => .error s!"unknown call {name}"

def scfg : Cfg SW := { ext := sext, glob := fun n => if n == "os.ErrNotExist" then some (.str "not exist") else none }

def genCpuUsage (content : List Char) : Except String (Option Nat) :=
  match runBody scfg [] Gen.C20.cpuUsageV2.body [("c", .nil)] { pending := lines content } 4000 with
  | .ok (some [.int n, .nil], _, _) => .ok (some n.toNat)
  | .ok (some [_, _], _, _) => .ok none
  | .ok _ => .error "shape"
  | .error e => .error e

/-! ### (b) concurrent creators of one group -/

/-- one creator's program counter for one controller directory -/
inductive PC | start | statted (sawAbsent : Bool) | done (created : Bool)
deriving DecidableEq, Repr

structure CS where
  exists_ : Bool          -- the directory exists
  a : PC
  b : PC
deriving DecidableEq, Repr

/-- `atomic` = the repaired EnsureDirExists (one mkdir: EEXIST ⇒ "existing"); otherwise the pinned
tree's stat followed by MkdirAll (which succeeds on an existing directory) -/
def stepOf (atomic : Bool) (ex : Bool) (pc : PC) : Option (Bool × PC) :=
  match pc with
  | .start => if atomic then some (true, .done (!ex)) else some (ex, .statted (!ex))
  | .statted sawAbsent => if sawAbsent then some (true, .done true) else some (ex, .done false)
  | .done _ => none

def csteps (atomic : Bool) (s : CS) : List CS :=
  (match stepOf atomic s.exists_ s.a with | some (e, p) => [{ s with exists_ := e, a := p }] | none => []) ++
  (match stepOf atomic s.exists_ s.b with | some (e, p) => [{ s with exists_ := e, b := p }] | none => [])

def cexplore (atomic : Bool) : Nat → List CS → List CS
  | 0, ss => ss
  | fuel + 1, ss => cexplore atomic fuel ((ss ++ ss.flatMap (csteps atomic)).eraseDups)

def cterminals (atomic : Bool) (preexisting : Bool) : List CS :=
  (cexplore atomic 6 [⟨preexisting, .start, .start⟩]).filter (fun s => (csteps atomic s).isEmpty)

/-! ### (c) EnsureDirExists / Destroy on regenerated code -/

structure DW where
  dirs : List String
  log : List String := []

def dext (name : String) (args : List Val) (env : Env) (w : DW) : Except String (Val × DW) :=
  match name, args with
  | "filepath.Dir", [.str p] => .ok (.str (String.ofList ((p.toList.reverse.dropWhile (· != '/')).drop 1).reverse), w)
  | "os.MkdirAll", [.str p, _] => .ok (.nil, { w with dirs := if w.dirs.contains p then w.dirs else w.dirs ++ [p], log := w.log ++ ["mkdirall " ++ p] })
  | "os.Mkdir", [.str p, _] =>
    if w.dirs.contains p then .ok (.str "EEXIST", { w with log := w.log ++ ["mkdir-eexist " ++ p] })
    else .ok (.nil, { w with dirs := w.dirs ++ [p], log := w.log ++ ["mkdir " ++ p] })
  | "os.Stat", [.str p] => .ok (.tup [.nil, if w.dirs.contains p then .nil else .str "ENOENT"], { w with log := w.log ++ ["stat " ++ p] })
  | "os.IsNotExist", [e] => .ok (.bool (Val.beq e (.str "ENOENT")), w)
  | "os.IsExist", [e] => .ok (.bool (Val.beq e (.str "EEXIST")), w)
  | "remove", [.str p] => .ok (.nil, { w with dirs := w.dirs.filter (· != p), log := w.log ++ ["rmdir " ++ p] })
  | "#zero", _ => .ok (.nil, w)
  | "s.AddProc", _ | "s.AddProc...", _ => .ok (.nil, { w with log := w.log ++ ["addproc " ++ (match env.get? "s" with | some (.strct fs) => (match recGet fs "path" with | some (.str p) => p | _ => "?") | _ => "?")] })
  | _, _ => .error s!"unknown call {name}"

def dcfg : Cfg DW := { ext := dext, glob := fun n => if n == "os.ErrExist" then some (.str "ErrExist") else if n == "dirPerm" then some (.int 493) else none }

/-- EnsureDirExists(path) on a set of existing directories: (result is ErrExist?, log) -/
def genEnsure (path : String) (dirs : List String) : Except String (String × List String) :=
  match runBody dcfg [] Gen.C20.ensureDirExists.body [("path", .str path)] { dirs := dirs } 300 with
  | .ok (some [.nil], _, w) => .ok ("created", w.log)
  | .ok (some [.str e], _, w) => .ok (e, w.log)
  | .ok _ => .error "shape"
  | .error e => .error e

/-- V1.Destroy on a handle value: which directories are removed -/
def genDestroyV1 (allP createdP : List String) (existing : Bool) : Except String (List String) :=
  let ctl (p : String) : Val := .strct [("path", .str p)]
  let c : Val := .strct [("all", .list (allP.map ctl)), ("created", .list (createdP.map ctl)), ("existing", .bool existing)]
  match runBody dcfg ["err1"] Gen.C20.destroyV1.body [("c", c)] { dirs := allP } 600 with
  | .ok (_, _, w) => .ok (w.log.filter (·.startsWith "rmdir"))
  | .error e => .error e

def genAddProcV1 (allP : List String) : Except String (List String) :=
  let ctl (p : String) : Val := .strct [("path", .str p)]
  let c : Val := .strct [("all", .list (allP.map ctl))]
  match runBody dcfg [] Gen.C20.addProcV1.body [("pids", .list [.int 7]), ("c", c)] { dirs := allP } 600 with
  | .ok (_, _, w) => .ok w.log
  | .error e => .error e

/-! ### (c'') a v1 handle under a parent handle: the regenerated `(*V1).New` -/

def v1ext (name : String) (args : List Val) (env : Env) (w : DW) : Except String (Val × DW) :=
  match name, args with
  | "filepath.Join", [.str a, .str b] => .ok (.str (a ++ "/" ++ b), w)
  | "EnsureDirExists", [.str p] =>
    if w.dirs.contains p then .ok (.str "EEXIST", { w with log := w.log ++ ["mkdir-eexist " ++ p] })
    else .ok (.nil, { w with dirs := w.dirs ++ [p], log := w.log ++ ["mkdir " ++ p] })
  | "initCpuset", [.str p] => .ok (.nil, { w with log := w.log ++ ["initcpuset " ++ p] })
  | _, _ => dext name args env w

def v1cfg : Cfg DW := { ext := v1ext, glob := dcfg.glob, fieldRefs := true }

def pathsOf : Option Val → List String
  | some (.list l) => l.filterMap (fun v => match v with
      | .strct fs => (match recGet fs "path" with | some (.str p) => some p | _ => none)
      | _ => none)
  | _ => []

/-- `parent.New(name)` of the regenerated v1 code (its deferred clean-up, which runs on error paths only, left
out) for a parent that has the given controllers, on a set of existing directories:
(directories the handle will use, directories it counts as created by it, its `existing` flag, directories made) -/
def genNewSubV1 (ctrls : List String) (name : String) (dirs : List String) :
    Except String (List String × List String × Bool × List String) :=
  let ctl (c : String) : Val := if ctrls.contains c then .strct [("path", .str ("/cg/" ++ c ++ "/par"))] else .nil
  let c : Val := .strct [("prefix", .str "par"), ("cpu", ctl "cpu"), ("cpuset", ctl "cpuset"), ("cpuacct", ctl "cpuacct"), ("memory", ctl "memory"), ("pids", ctl "pids")]
  let body := Gen.C20.newSubV1.body.filter (fun s => match s with | .other "defer" => false | _ => true)
  match runBody v1cfg Gen.C20.newSubV1.results body [("err", .nil), ("cg", .nil), ("name", .str name), ("c", c)] { dirs := dirs } 3000 with
  | .ok (some [.strct fs, .nil], _, w) =>
    .ok (pathsOf (recGet fs "all"), pathsOf (recGet fs "created"), (match recGet fs "existing" with | some (.bool b) => b | _ => false),
         w.dirs.filter (fun d => !dirs.contains d))
  | .ok _ => .error "shape"
  | .error e => .error e

/-- New then Destroy, both regenerated: the `rmdir <dir>` lines of Destroy -/
def genNewThenDestroyV1 (ctrls : List String) (name : String) (dirs : List String) : Except String (List String) :=
  match genNewSubV1 ctrls name dirs with
  | .ok (allP, createdP, existing, _) =>
    (match genDestroyV1 allP createdP existing with
     | .ok l => .ok l
     | .error e => .error e)
  | .error e => .error e

/-- every subset of a list -/
def subsets : List String → List (List String)
  | [] => [[]]
  | x :: r => (subsets r).flatMap (fun s => [s, x :: s])

/-! ### (c') creation of a v2 group by the regenerated New / Nest / newV2 -/

def vext (name : String) (args : List Val) (env : Env) (w : DW) : Except String (Val × DW) :=
  match name, args with
  | "c.enableSubtreeControl", _ => .ok (.nil, w)
  | "filepath.Join", l => .ok (.str (PathResolve.join (l.map (fun v => match v with | .str s => s | _ => "?"))), w)
  | "c.Processes", _ => .ok (.tup [.list [.int 41, .int 42], .nil], w)
  | "v2.AddProc...", [.list ps] => .ok (.nil, { w with log := w.log ++ [s!"addproc {ps.length}"] })
  | "ct.Names", _ => .ok (.list [], w)
  | "strings.Join", _ => .ok (.str "", w)
  | "strings.Split", [.str s, .str "/"] => .ok (.list ((PathResolve.splitSlash s).map Val.str), w)
  | "?", [v] => .ok (v, w)                       -- []byte(...) conversion
  | "getAvailableControllerV2", _ => .ok (.tup [.str "ect", .nil], w)
  | "ect.Contains", _ => .ok (.bool true, w)
  | _, _ => dext name args env w

def vcfg : Cfg DW := { ext := vext, glob := fun n =>
  if n == "basePath" then some (.str "/cg") else if n == "dirPerm" then some (.int 493) else dcfg.glob n }

/-- (Existing() of the returned handle, its path, directories afterwards, log) -/
def handleOf (r : Option (List Val)) (w : DW) : Except String (Bool × String × List String × List String) :=
  match r with
  | some [.strct fs, .nil] =>
    let ex := match recGet fs "existing" with | some (.bool b) => b | _ => false
    let p := match recGet fs "path" with | some (.str p) => p | _ => "?"
    .ok (ex, p, w.dirs, w.log)
  | _ => .error "no handle returned"

def genNewSubV2 (nest : Bool) (parent name : String) (dirs : List String) : Except String (Bool × String × List String × List String) :=
  let f := if nest then Gen.C20.nestV2 else Gen.C20.newSubV2
  match runBody vcfg f.results f.body [("name", .str name), ("c", .strct [("path", .str parent), ("control", .str "ct")])] { dirs := dirs } 400 with
  | .ok (r, _, w) => handleOf r w
  | .error e => .error e

/-- newV2 without its deferred clean-up (which only runs on the error paths) -/
def genNewV2 (pfx : String) (dirs : List String) : Except String (Bool × String × List String × List String) :=
  let body := Gen.C20.newV2.body.filter (fun s => match s with | .other "defer" => false | _ => true)
  match runBody vcfg Gen.C20.newV2.results body [("ct", .str "ct"), ("prefix", .str pfx)] { dirs := dirs } 800 with
  | .ok (r, _, w) => handleOf r w
  | .error e => .error e

/-! ### (d) ownership over histories (hand model; primitive granularity: one mkdir / one Destroy) -/

abbrev Dir := Nat      -- one directory of one hierarchy (controller × group path)
abbrev Hid := Nat      -- a handle

structure Handle where
  created : List Dir := []
  existing : Bool := false
  dead : Bool := false         -- Destroy has been called: the handle is not used again
deriving Repr

structure OSt where
  /-- directories that exist, with who made them (`none`: there before / made by someone else) -/
  fs : List (Dir × Option Hid) := []
  hs : Hid → Handle := fun _ => {}
  /-- every directory removal performed by a Destroy: (handle, directory, who had made it) -/
  removed : List (Hid × Dir × Option Hid) := []
  /-- the hierarchy: the directory a directory lies in (fixed); rmdir fails on a directory with sub-directories -/
  par : Dir → Option Dir := fun _ => none

inductive OOp
  | mk (h : Hid) (d : Dir)       -- the handle's creating call reaches directory d: one atomic mkdir
  | destroy (h : Hid)
  | extMk (d : Dir)              -- someone else creates a group
  | extRm (d : Dir)              -- someone else removes a group nobody of ours made
deriving Repr

def owner (fs : List (Dir × Option Hid)) (d : Dir) : Option (Option Hid) :=
  match fs with
  | [] => none
  | (k, o) :: r => if k = d then some o else owner r d

def setH (hs : Hid → Handle) (h : Hid) (v : Handle) : Hid → Handle := fun k => if k = h then v else hs k

/-- Destroy's loop (Go: `for _, s := range c.created { if c.existing {continue}; remove(s.path) }`) -/
def hasChild (par : Dir → Option Dir) (fs : List (Dir × Option Hid)) (d : Dir) : Bool :=
  fs.any (fun e => par e.1 == some d)

def destroyLoop (par : Dir → Option Dir) (h : Hid) : List Dir → List (Dir × Option Hid) → List (Hid × Dir × Option Hid) →
    List (Dir × Option Hid) × List (Hid × Dir × Option Hid)
  | [], fs, log => (fs, log)
  | d :: rest, fs, log =>
    match owner fs d with
    | some o =>
      if hasChild par fs d then destroyLoop par h rest fs log        -- rmdir: the group still has sub-groups (EBUSY)
      else destroyLoop par h rest (fs.filter (fun e => e.1 ≠ d)) ((h, d, o) :: log)
    | none => destroyLoop par h rest fs log

def ostep (s : OSt) : OOp → OSt
  | .mk h d =>
    let hd := s.hs h
    if hd.dead then s else
    match owner s.fs d with
    | some _ => { s with hs := setH s.hs h { hd with existing := hd.existing || hd.created.isEmpty } }
    | none => { s with fs := (d, some h) :: s.fs, hs := setH s.hs h { hd with created := d :: hd.created } }
  | .destroy h =>
    let hd := s.hs h
    if hd.dead then s else
    if hd.existing then { s with hs := setH s.hs h { hd with dead := true } }
    else
      let (fs, log) := destroyLoop s.par h hd.created s.fs s.removed
      { s with fs := fs, hs := setH s.hs h { hd with dead := true }, removed := log }
  | .extMk d => if (owner s.fs d).isSome then s else { s with fs := (d, none) :: s.fs }
  | .extRm d => if owner s.fs d = some none then { s with fs := s.fs.filter (fun e => e.1 ≠ d) } else s

def orun (ops : List OOp) (s : OSt) : OSt := ops.foldl ostep s

end GoSandbox.Model.Cgroup
