/-
Hand model ("skeleton") of the child side of forkexec: the sequence of security-relevant steps of
`forkAndExecInChild` as a function of the option set, for an empty descriptor list (the descriptor
shuffle is Model/FdShuffle.lean).  Theorems about *all* option sets are proved on this model
(Props/C04, C07); it is tied to the regenerated function by comparing, for every option set, its
output with the labelled trace of `GoLite(Gen.ForkChild.forkAndExecInChild)` (exhaustive in the
driver on every run; a kernel-evaluated sample in Props/C04).  Core-only.
-/
import GoSandbox.Model.ForkOpts
namespace GoSandbox.Model.ForkSkeleton
open GoSandbox.Model.ForkOpts GoSandbox.Model.ForkChildRun GoSandbox.GoLite

inductive Step where
  | clone
  | clone3
  | close_p0
  | read_idmap
  | getpid
  | prctl_securebits_keep
  | setgroups
  | setgid
  | setuid
  | setsid
  | ioctl_ctty
  | mount_private
  | mount_tmpfs_root
  | chdir_root
  | mkdirat
  | mount
  | statfs
  | mount_remount
  | mkdirat_old_root
  | pivot_root
  | umount2
  | unlinkat
  | mount_ro_root
  | sethostname
  | setdomainname
  | chdir_workdir
  | prlimit64
  | prctl_nnp
  | prctl_securebits_noroot
  | capset
  | write_sync
  | read_sync
  | unshare_cgroup
  | prctl_pdeathsig
  | getppid
  | ptrace_traceme
  | kill_stop
  | seccomp
  | execve
  | execveat
  | other (s : String)
deriving DecidableEq, Repr

def Step.ofLabel : String → Step
  | "clone" => .clone
  | "clone3" => .clone3
  | "close:p0" => .close_p0
  | "read:idmap" => .read_idmap
  | "getpid" => .getpid
  | "prctl:securebits:keep" => .prctl_securebits_keep
  | "setgroups" => .setgroups
  | "setgid" => .setgid
  | "setuid" => .setuid
  | "setsid" => .setsid
  | "ioctl:ctty" => .ioctl_ctty
  | "mount:private" => .mount_private
  | "mount:tmpfs-root" => .mount_tmpfs_root
  | "chdir:root" => .chdir_root
  | "mkdirat" => .mkdirat
  | "mount" => .mount
  | "statfs" => .statfs
  | "mount:remount" => .mount_remount
  | "mkdirat:old_root" => .mkdirat_old_root
  | "pivot_root" => .pivot_root
  | "umount2" => .umount2
  | "unlinkat" => .unlinkat
  | "mount:ro-root" => .mount_ro_root
  | "sethostname" => .sethostname
  | "setdomainname" => .setdomainname
  | "chdir:workdir" => .chdir_workdir
  | "prlimit64" => .prlimit64
  | "prctl:nnp" => .prctl_nnp
  | "prctl:securebits:noroot" => .prctl_securebits_noroot
  | "capset" => .capset
  | "write:sync" => .write_sync
  | "read:sync" => .read_sync
  | "unshare:cgroup" => .unshare_cgroup
  | "prctl:pdeathsig" => .prctl_pdeathsig
  | "getppid" => .getppid
  | "ptrace:traceme" => .ptrace_traceme
  | "kill:stop" => .kill_stop
  | "seccomp" => .seccomp
  | "execve" => .execve
  | "execveat" => .execveat
  | s => .other s

def opt (b : Bool) (l : List Step) : List Step := if b then l else []

/-- the block executed at the sync point (twice in the source: ptrace+seccomp branch and the
ordinary branch) -/
def syncBlock (o : Opts) (withSeccomp : Bool) : List Step :=
  opt o.syncFunc [.write_sync, .read_sync] ++
  opt o.ucas ([.unshare_cgroup] ++
    opt (o.dropCaps || o.cred) [.prctl_securebits_noroot, .capset] ++
    opt (withSeccomp && o.seccomp) [.seccomp])

/-- a traced child first asks to be killed with its parent (the tracer sets PTRACE_O_EXITKILL only at the
first stop), and checks that the parent is still there (unless it cannot see it: new pid namespace) -/
def tracemeSteps (o : Opts) : List Step :=
  [.prctl_pdeathsig] ++ opt (!o.newPid) [.getppid] ++ [.ptrace_traceme]

def mountSteps (o : Opts) : List Step :=
  (List.range o.nMounts).flatMap (fun _ => [.mkdirat, .mount] ++ opt o.roBindMount [.statfs, .mount_remount])

def skeleton (o : Opts) : List Step :=
  opt o.cgroupFd [.clone3] ++ opt (!o.cgroupFd) [.clone] ++ [.close_p0] ++
  opt o.newUser [.read_idmap] ++
  [.getpid] ++
  opt (o.cred || o.ucas) [.prctl_securebits_keep] ++
  opt o.cred (opt (!(o.gidMappings && !o.enableSetgroups && o.groups == 0) && !o.noSetGroups) [.setgroups] ++ [.setgid, .setuid]) ++
  [.setsid] ++
  opt o.ctty [.ioctl_ctty] ++
  opt o.newNs [.mount_private] ++
  opt o.pivot [.mount_tmpfs_root, .chdir_root] ++
  mountSteps o ++
  opt o.pivot [.mkdirat_old_root, .pivot_root, .umount2, .unlinkat, .mount_ro_root] ++
  opt o.hostname [.sethostname] ++
  opt o.domainname [.setdomainname] ++
  opt o.workdir [.chdir_workdir] ++
  List.replicate o.nRlimits .prlimit64 ++
  opt (o.nnp || o.seccomp) [.prctl_nnp] ++
  opt ((o.cred || o.dropCaps) && !o.ucas) [.prctl_securebits_noroot, .capset] ++
  opt (o.ptrace && o.seccomp) (syncBlock o false ++ tracemeSteps o) ++
  opt (o.stopBefore || (o.seccomp && o.ptrace)) [.kill_stop] ++
  opt (o.seccomp && (!o.ucas || o.ptrace)) [.seccomp] ++
  opt (!o.ptrace || !o.seccomp) (syncBlock o true) ++
  opt (o.ptrace && !o.seccomp) (tracemeSteps o) ++
  opt (decide (o.execFile > 0)) [.execveat] ++ opt (!decide (o.execFile > 0)) [.execve]

/-- clone flags computed by the function: the requested namespace flags, plus VM|VFORK when no
parent interaction is needed -/
def usesVfork (o : Opts) : Bool :=
  !o.syncFunc && !(o.stopBefore || (o.seccomp && o.ptrace)) && !o.newUser

/-! ### labelling the regenerated function's trace with the same vocabulary -/

def strArg : Val → String
  | .str s => s
  | .list [.str s] => s
  | _ => "?"

def intArg : Val → Int
  | .int i => i
  | _ => -1

def label (s : Sys) : String :=
  let n := sysName s.nr
  let a (i : Nat) := s.args.getD i .nil
  match n with
  | "close" => if intArg (a 0) == 100 then "close:p0" else "close"
  | "read" => if intArg (a 2) == 8 then (match a 1 with | .strct _ => "read" | _ => "read") else "read"
  | "prctl" =>
    if intArg (a 0) == cNat "syscall.PR_SET_SECUREBITS" then
      (if (intArg (a 1)).toNat.land (cNat "_SECURE_NOROOT").toNat != 0 then "prctl:securebits:noroot" else "prctl:securebits:keep")
    else if intArg (a 0) == cNat "unix.PR_SET_NO_NEW_PRIVS" then "prctl:nnp"
    else if intArg (a 0) == cNat "syscall.PR_SET_PDEATHSIG" then "prctl:pdeathsig" else "prctl:?"
  | "ioctl" => "ioctl:ctty"
  | "mount" =>
    let flags := (intArg (a 3)).toNat
    if strArg (a 0) == "none" then "mount:private"
    else if strArg (a 0) == "tmpfs" && strArg (a 1) == "/" then "mount:ro-root"
    else if strArg (a 0) == "tmpfs" then "mount:tmpfs-root"
    else if flags.land (cNat "syscall.MS_REMOUNT").toNat != 0 then "mount:remount"
    else "mount"
  | "chdir" => if strArg (a 0) == "/root" then "chdir:root" else "chdir:workdir"
  | "mkdirat" => if strArg (a 1) == "old_root" then "mkdirat:old_root" else "mkdirat"
  | "unshare" => "unshare:cgroup"
  | "ptrace" => "ptrace:traceme"
  | "kill" => "kill:stop"
  | other => other

/-- reads/writes on the sync socket are told apart by position: the id-map read comes before
getpid, the sync write/read pair after it -/
def relabelSync : List String → Bool → List String
  | [], _ => []
  | "getpid" :: r, _ => "getpid" :: relabelSync r true
  | "read" :: r, seen => (if seen then "read:sync" else "read:idmap") :: relabelSync r seen
  | "write" :: r, seen => "write:sync" :: relabelSync r seen
  | x :: r, seen => x :: relabelSync r seen

def genLabels (o : Opts) : Except String (List Step) :=
  match runChild (launchOf o) { fds := [(100, 50, true), (101, 50, true)] ++ (if o.execFile > 0 then [(o.execFile, 60, true)] else []),
                                pipeIn := [0, 0, 0] } with
  | .ok out => .ok ((relabelSync (out.w.trace.reverse.map label) false).map Step.ofLabel)
  | .error e => .error e

end GoSandbox.Model.ForkSkeleton
