/-
C03: enforcement of the handler's verdicts.
(a) the regenerated handleTrap / skipSyscall / SetReturnValue / softBanSyscall run by Go-lite against
    the registers of a stopped tracee; the hand model `handleTrapM`; the kernel's resume rule at a
    seccomp stop (`kernelResume`: syscall number -1 = skip, the return register is what the tracer left);
(b) a run of a program as a sequence of syscalls issued by processes of a fork/vfork/clone tree
    (`stepOp`): which calls execute, what the program sees, how the run ends.
Core-only.
-/
import GoSandbox.GoLite.Exec
import GoSandbox.Gen.C03
import GoSandbox.Gen.Consts
namespace GoSandbox.Model.Verdict
open GoSandbox.GoLite

inductive Act | allow | ban | kill
deriving DecidableEq, Repr

structure Regs where
  origRax : Nat
  rax : Nat
deriving DecidableEq, Repr

def banRet : Nat := Gen.Consts.ptrace_BanRet

/-- hand model of handleTrap (with the runner's handler, whose ban sets the return register):
new tracee registers and "an error is returned" (= the run ends as Disallowed Syscall) -/
def handleTrapM (act : Act) (r : Regs) : Regs × Bool :=
  match act with
  | .allow => (r, false)
  | .ban => ({ origRax := 2 ^ 64 - 1, rax := 2 ^ 64 - banRet }, false)
  | .kill => (r, true)

/-- the kernel, when a tracee stopped at a seccomp event is resumed: a negative syscall number
(as a 32-bit int) skips the call and the program sees the return register as the tracer left it;
otherwise the call numbered `origRax` executes. `none` = executes. -/
def kernelResume (r : Regs) : Option Int :=
  let nr := r.origRax % 2 ^ 32
  if nr ≥ 2 ^ 31 then some (if r.rax ≥ 2 ^ 63 then (r.rax : Int) - 2 ^ 64 else r.rax) else none

/-! ### the regenerated functions -/

structure TW where
  tracee : Regs
  act : Act
  gone : Bool := false
  setregs : Nat := 0
  pending : List (String × Val) := []

def ctxVal (pid : Int) (r : Regs) : Val :=
  .strct [("Pid", .int pid), ("regs", .strct [("Orig_rax", .int r.origRax), ("Rax", .int r.rax)])]

def regsOf (v : Val) : Option Regs :=
  match v with
  | .strct fs => match recGet fs "Orig_rax", recGet fs "Rax" with
    | some (.int a), some (.int b) => some ⟨a.toNat, b.toNat⟩
    | _, _ => none
  | _ => none

def tglob (n : String) : Option Val :=
  match n with
  | "TraceBan" | "ptracer.TraceBan" => some (.str "TraceBan")
  | "TraceKill" | "ptracer.TraceKill" => some (.str "TraceKill")
  | "TraceAllow" | "ptracer.TraceAllow" => some (.str "TraceAllow")
  | "unix.ESRCH" => some (.str "ESRCH")
  | "runner.StatusDisallowedSyscall" => some (.str "DisallowedSyscall")
  | "BanRet" => some (.int banRet)
  | _ => none

def flushT (w : TW) : List (String × Val) × TW := (w.pending, { w with pending := [] })

def extA (name : String) (args : List Val) (_ : Env) (w : TW) : Except String (Val × TW) :=
  match name, args with
  | "syscall.PtraceSetRegs", [_, regs] =>
    if w.gone then .ok (.str "ESRCH", w)
    else match regsOf regs with
      | some r => .ok (.nil, { w with tracee := r, setregs := w.setregs + 1 })
      | none => .error "PtraceSetRegs: bad regs"
  | _, _ => .error s!"unknown call {name}"

def cfgA : Cfg TW := { ext := extA, glob := tglob, flush := flushT }

/-- run a method body with a pointer receiver bound to `recv`; returns (result, receiver afterwards) -/
def runMethod (cfg : Cfg TW) (f : Func) (recvName : String) (recv : Val) (rest : List (String × Val)) (w : TW) :
    Except String (Option (List Val) × Val × TW) :=
  match runBody cfg f.results f.body (rest.reverse ++ [(recvName, recv)]) w 400 with
  | .ok (r, env, w) => .ok (r, (env.get? recvName).getD .nil, w)
  | .error e => .error e

def extB (name : String) (args : List Val) (env : Env) (w : TW) : Except String (Val × TW) :=
  match name, args with
  | "ctx.SetReturnValue", [v] => do
    let ctx := (env.get? "ctx").getD .nil
    let (_, c', w) ← runMethod cfgA Gen.C03.setReturnValue "c" ctx [("retval", v)] w
    .ok (.nil, { w with pending := [("ctx", c')] })
  | _, _ => extA name args env w

def cfgB : Cfg TW := { ext := extB, glob := tglob, flush := flushT }

def extC (name : String) (args : List Val) (env : Env) (w : TW) : Except String (Val × TW) :=
  match name, args with
  | "ph.Handler.Debug", _ => .ok (.nil, w)
  | "getTrapContext", [.int pid] =>
    if w.gone then .ok (.tup [.nil, .str "ESRCH"], w) else .ok (.tup [ctxVal pid w.tracee, .nil], w)
  | "ph.Handler.Handle", [ctx] =>
    match w.act with
    | .allow => .ok (.str "TraceAllow", w)
    | .kill => .ok (.str "TraceKill", w)
    | .ban => do
      -- the runner's handler: softBanSyscall(ctx) sets the return value through the pointer
      let (r, ctx', w) ← runMethod cfgB Gen.C03.softBanSyscall "ctx" ctx [] w
      match r with
      | some [v] => .ok (v, { w with pending := [("ctx", ctx')] })
      | _ => .error "softBanSyscall: no result"
  | "ctx.skipSyscall", [] => do
    let ctx := (env.get? "ctx").getD .nil
    let (r, c', w) ← runMethod cfgA Gen.C03.skipSyscall "c" ctx [] w
    match r with
    | some [v] => .ok (v, { w with pending := [("ctx", c')] })
    | _ => .error "skipSyscall: no result"
  | _, _ => .error s!"unknown call {name}"

def cfgC : Cfg TW := { ext := extC, glob := tglob, flush := flushT }

/-- the regenerated handleTrap on a stopped tracee: (tracee registers afterwards, error returned?) -/
def genTrap (act : Act) (r : Regs) (gone : Bool := false) : Except String (Regs × Bool) :=
  match runBody cfgC [] Gen.C03.handleTrap.body
      [("pid", .int 7), ("ph", .strct [("Handler", .str "handler")])] { tracee := r, act := act, gone := gone } 600 with
  | .ok (some [.nil], _, w) => .ok (w.tracee, false)
  | .ok (some [_], _, w) => .ok (w.tracee, true)
  | .ok _ => .error "shape"
  | .error e => .error e

/-- the option bits of the regenerated setPtraceOption -/
def genOptionBits : Option Nat :=
  let ext (name : String) (args : List Val) (_ : Env) (w : Nat) : Except String (Val × Nat) :=
    match name, args with
    | "unix.PtraceSetOptions", [_, .int f] => .ok (.nil, f.toNat)
    | _, _ => .error s!"unknown call {name}"
  let glob (n : String) : Option Val := (Gen.Consts.table.find? (fun p => p.1 == n)).map (fun p => Val.int p.2)
  match runBody ({ ext := ext, glob := glob } : Cfg Nat) [] Gen.C03.setPtraceOption.body [("pid", .int 7)] 0 100 with
  | .ok (_, _, w) => some w
  | .error _ => none

/-! ### a run over a process tree -/

inductive Kind | fork | vfork | clone
deriving DecidableEq, Repr

inductive FRes | allow | trace | kill
deriving DecidableEq, Repr

structure Op where
  lineage : List Kind      -- how the issuing process descends from the root program
  id : Nat
  fres : FRes              -- what the seccomp filter answers for this call
deriving DecidableEq, Repr

inductive Status | normal | disallowed
deriving DecidableEq, Repr

structure RunSt where
  effects : List Nat := []            -- calls that executed, in order
  rets : List (Nat × Int) := []       -- what the program saw for calls that did not execute
  status : Status := .normal
deriving DecidableEq, Repr

def ENOSYS : Int := 38

/-- the kernel attaches a new child to the tracer (same options) iff the parent is traced with the
option for that kind of creation -/
def tracedProc (opts : List Kind) (lineage : List Kind) : Bool := lineage.all (fun k => opts.contains k)

def stepOp (opts : List Kind) (decide : Nat → Act) (s : RunSt) (op : Op) : RunSt :=
  if s.status = .disallowed then s else          -- the run is over: every process has been killed
  match op.fres with
  | .allow => { s with effects := s.effects ++ [op.id] }
  | .kill => { s with status := .disallowed }
  | .trace =>
    if tracedProc opts op.lineage then
      match decide op.id with
      | .allow => { s with effects := s.effects ++ [op.id] }
      | .ban => { s with rets := s.rets ++ [(op.id, -(banRet : Int))] }
      | .kill => { s with status := .disallowed }
    else { s with rets := s.rets ++ [(op.id, -ENOSYS)] }     -- no tracer for the event: the kernel fails the call

def runOps (opts : List Kind) (decide : Nat → Act) (ops : List Op) (s : RunSt) : RunSt :=
  ops.foldl (stepOp opts decide) s

/-- the kinds whose auto-attach option is in a ptrace option word -/
def kindsOf (bits : Nat) : List Kind :=
  (if bits &&& Gen.Consts.unix_PTRACE_O_TRACEFORK != 0 then [Kind.fork] else []) ++
  (if bits &&& Gen.Consts.unix_PTRACE_O_TRACEVFORK != 0 then [Kind.vfork] else []) ++
  (if bits &&& Gen.Consts.unix_PTRACE_O_TRACECLONE != 0 then [Kind.clone] else [])

end GoSandbox.Model.Verdict
