/-
Model of the gob-framed layer of the control socket (container/socket_linux.go):

  SendMsg(e):  sendBuff.Reset(); encoder.Encode(e); if sendBuff.Len() > bufferSize → error (nothing sent)
               else Socket.SendMsg(sendBuff.Bytes())
  RecvMsg(e):  n := Socket.RecvMsg(buff); recvBuff := buff[:n]; decoder.Decode(e)

encoding/gob is a *stream* format: the encoder emits the descriptor of a type the first time a value
of that type is encoded on this encoder and never again; the decoder can decode a value only if it
has seen the descriptors of its type.  One encoder and one decoder live as long as the socket; every
message is one SEQPACKET datagram (a frame) = the descriptors that are new ++ the value.

Abstractly: a message kind `k` needs the descriptor ids `descs k` (its own type and the nested ones);
the encoder remembers which ids it has emitted, the decoder which it has seen.  Core-only.
-/
namespace GoSandbox.Model.Gob

abbrev Kind := Nat

structure Cfg where
  /-- descriptor ids a value of this kind needs -/
  descs : Kind → List Nat
  descSize : Nat → Nat
  /-- the library's message cap (bufferSize) -/
  cap : Nat

inductive Item where
  | desc (d : Nat)
  | val (k : Kind) (payload : List Nat)
deriving DecidableEq, Repr

abbrev Frame := List Item

def newDescs (c : Cfg) (sent : List Nat) (k : Kind) : List Nat :=
  (c.descs k).filter (fun d => !sent.contains d)

/-- `encoder.Encode(e)`: descriptors not yet emitted on this encoder, then the value; the encoder
remembers them as emitted whether or not the bytes are ever sent. -/
def encode (c : Cfg) (sent : List Nat) (k : Kind) (p : List Nat) : List Nat × Frame :=
  let nd := newDescs c sent k
  (sent ++ nd, nd.map Item.desc ++ [Item.val k p])

def itemSize (c : Cfg) : Item → Nat
  | .desc d => c.descSize d
  | .val _ p => p.length + 1

def frameSize (c : Cfg) (f : Frame) : Nat := (f.map (itemSize c)).sum

/-- `decoder.Decode(e)` on one frame: descriptors are learnt, a value is decoded iff all descriptors of
its kind are known ("gob: unknown type id" otherwise).  Returns the decoder's new knowledge and the
value (none = decode error / no value in the frame). -/
def decode (c : Cfg) : List Nat → Frame → List Nat × Option (Kind × List Nat)
  | known, [] => (known, none)
  | known, .desc d :: rest => decode c (d :: known) rest
  | known, .val k p :: _ => if (c.descs k).all (fun d => known.contains d) then (known, some (k, p)) else (known, none)

structure St where
  sent : List Nat            -- encoder of the sending end
  q : List Frame             -- datagrams in flight (SEQPACKET: whole, in order)
  known : List Nat           -- decoder of the receiving end
deriving Repr

def init : St := ⟨[], [], []⟩

inductive Op where
  | send (k : Kind) (p : List Nat)
  | recv
deriving Repr

inductive Out where
  | sent
  | rejected            -- "payload too large": nothing is handed to the socket
  | got (k : Kind) (p : List Nat)
  | decodeError
  | empty
deriving DecidableEq, Repr

def step (c : Cfg) (s : St) : Op → St × Out
  | .send k p =>
    let (sent', f) := encode c s.sent k p
    if frameSize c f > c.cap then ({ s with sent := sent' }, .rejected)
    else ({ s with sent := sent', q := s.q ++ [f] }, .sent)
  | .recv =>
    match s.q with
    | [] => (s, .empty)
    | f :: rest =>
      match decode c s.known f with
      | (known', some (k, p)) => ({ s with q := rest, known := known' }, .got k p)
      | (known', none) => ({ s with q := rest, known := known' }, .decodeError)

def run (c : Cfg) : St → List Op → St × List Out
  | s, [] => (s, [])
  | s, op :: rest =>
    let (s', o) := step c s op
    let (s'', os) := run c s' rest
    (s'', o :: os)

/-- the values of the accepted sends of a history, in order -/
def accepted (c : Cfg) : St → List Op → List (Kind × List Nat)
  | _, [] => []
  | s, op :: rest =>
    match op, step c s op with
    | .send k p, (s', .sent) => (k, p) :: accepted c s' rest
    | _, (s', _) => accepted c s' rest

def gots : List Out → List (Kind × List Nat)
  | [] => []
  | .got k p :: r => (k, p) :: gots r
  | _ :: r => gots r

def valOf : Frame → Option (Kind × List Nat)
  | [] => none
  | .val k p :: _ => some (k, p)
  | .desc _ :: r => valOf r

/-- hypothesis "every first use fits": a send that is rejected for its size carried no descriptor
(its type had been used on this encoder before).  The container package satisfies it: the first
command (ping / conf) and the first reply are small. -/
def firstUsesFit (c : Cfg) : St → List Op → Bool
  | _, [] => true
  | s, op :: rest =>
    (match op with
     | .send k p => (frameSize c (encode c s.sent k p).2 ≤ c.cap || (newDescs c s.sent k).isEmpty)
     | .recv => true) && firstUsesFit c (step c s op).1 rest

end GoSandbox.Model.Gob
