import GoSandbox.Base.Proto
import GoSandbox.Model.SeccompValidate
namespace GoSandbox.Driver.C01
open GoSandbox.Proto GoSandbox.Kernel.BPF GoSandbox.Spec.SeccompPolicy GoSandbox.Model.SeccompValidate

def parseProg (s : String) : Option (List Insn) :=
  (splitList s).mapM (fun t => match t.splitOn ":" with
    | [c, jt, jf, k] => do pure ⟨← c.toNat?, ← jt.toNat?, ← jf.toNat?, ← k.toNat?⟩
    | _ => none)

/-- `c01.validate <defaultRet> <nativeArch> <allowRet> <traceRet> <x32Bit> <x32Ret> <allow nrs> <trace nrs> <prog>` -/
def handle : List String → Option String
  | ["c01.validate", dr, na, ar, tr, xb, xr, allow, trace, prog] => do
    let p : Policy := { allow := ← natList allow, trace := ← natList trace, defaultRet := ← dr.toNat?, nativeArch := ← na.toNat?,
                        allowRet := ← ar.toNat?, traceRet := ← tr.toNat?, x32Bit := ← xb.toNat?, x32Ret := ← xr.toNat? }
    let pr ← parseProg prog
    if validate pr p then some "valid"
    else if !wf pr then some "not-wellformed"
    else match firstBad pr p with
      | some (nr, arch) =>
        let got := match exec pr ⟨nr, arch, zeroArgs⟩ with | some v => toString v | none => "none"
        some s!"invalid nr={nr} arch={arch} got={got} want={expected p ⟨nr, arch, zeroArgs⟩}"
      | none => some "invalid ?"
  | ["c01.run", nr, arch, prog] => do
    let pr ← parseProg prog
    match exec pr ⟨← nr.toNat?, ← arch.toNat?, zeroArgs⟩ with
    | some v => some (toString v)
    | none => some "none"
  | _ => none

end GoSandbox.Driver.C01
