/-
C19: the regenerated (*Socket).RecvMsg and parseMsg (Gen.C19) run by Go-lite on what the kernel's
recvmsg returned (payload length, flags, the control messages it wrote), for comparison with the
hand model Model/Socket.lean.  Core-only.
-/
import GoSandbox.GoLite.Exec
import GoSandbox.Gen.C19
import GoSandbox.Gen.Consts
import GoSandbox.Model.Socket
namespace GoSandbox.Model.SocketGen
open GoSandbox.GoLite GoSandbox.Model.Socket

/-- a control message as ParseSocketControlMessage returns it -/
inductive CMsg
  | rights (fds : List Nat)
  | cred
  | other            -- a level other than SOL_SOCKET
deriving DecidableEq, Repr

structure KW where
  n : Nat
  flags : Nat
  cmsgs : List CMsg
  closed : List Nat := []

def cmsgVal : CMsg → Val
  | .rights fds => .strct [("Header", .strct [("Level", .int Gen.Consts.syscall_SOL_SOCKET), ("Type", .int Gen.Consts.syscall_SCM_RIGHTS)]), ("#fds", .list (fds.map (fun f => Val.int (Int.ofNat f))))]
  | .cred => .strct [("Header", .strct [("Level", .int Gen.Consts.syscall_SOL_SOCKET), ("Type", .int Gen.Consts.syscall_SCM_CREDENTIALS)])]
  | .other => .strct [("Header", .strct [("Level", .int 41), ("Type", .int Gen.Consts.syscall_SCM_RIGHTS)]), ("#fds", .list [.int 99])]

def glob (n : String) : Option Val :=
  match n with
  | "errMessageTruncated" => some (.str "truncated")
  | _ => (Gen.Consts.table.find? (fun p => p.1 == n)).map (fun p => Val.int p.2)

def deref (env : Env) : Val → Val
  | .strct [("#ref", .str n)] => (env.get? n).getD .nil
  | v => v

def ext0 (name : String) (args : List Val) (env : Env) (w : KW) : Except String (Val × KW) :=
  match name, args.map (deref env) with
  | "syscall.ParseUnixRights", [.strct fs] => .ok (.tup [(recGet fs "#fds").getD (.list []), .nil], w)
  | "syscall.ParseUnixCredentials", [_] => .ok (.tup [.str "ucred", .nil], w)
  | "syscall.Close", [.int fd] => .ok (.nil, { w with closed := w.closed ++ [fd.toNat] })
  | "#zero", _ => .ok (.strct [("Fds", .nil), ("Cred", .nil)], w)
  | _, _ => .error s!"unknown call {name}"

def cfg0 : Cfg KW := { ext := ext0, glob := glob }

def ext1 (name : String) (args : List Val) (env : Env) (w : KW) : Except String (Val × KW) :=
  match name, args with
  | "s.ReadMsgUnix", _ => .ok (.tup [.int w.n, .int 64, .int w.flags, .nil, .nil], w)
  | "syscall.ParseSocketControlMessage", _ => .ok (.tup [.list (w.cmsgs.map cmsgVal), .nil], w)
  | "parseMsg", [msgs] =>
    -- without its deferred clean-up (error paths of the Parse* calls only)
    let body := Gen.C19.parseMsg.body.filter (fun s => match s with | .other "defer" => false | _ => true)
    (match runBody cfg0 ["msg", "err"] body [("err", .nil), ("msg", .strct [("Fds", .nil), ("Cred", .nil)]), ("msgs", msgs)] w 600 with
     | .ok (some [m, e], _, w) => .ok (.tup [m, e], w)
     | .ok _ => .error "parseMsg: no result"
     | .error e => .error e)
  | _, _ => ext0 name args env w

def cfg1 : Cfg KW := { ext := ext1, glob := glob }

/-- result of the regenerated RecvMsg: (n, descriptors handed to the caller, credentials present, error?), descriptors closed -/
def genRecv (n flags : Nat) (cmsgs : List CMsg) : Except String ((Nat × List Nat × Bool × Bool) × List Nat) :=
  match runBody cfg1 [] Gen.C19.recvMsg.body [("b", .list []), ("s", .strct [("recvBuff", .list (List.replicate 64 (.int 0)))])] { n := n, flags := flags, cmsgs := cmsgs } 1500 with
  | .ok (some [.int k, .strct m, e], _, w) =>
    let fds := match recGet m "Fds" with | some (.list l) => l.filterMap (fun v => match v with | .int i => some i.toNat | _ => none) | _ => []
    let cred := match recGet m "Cred" with | some (.str _) => true | _ => false
    .ok ((k.toNat, fds, cred, !(Val.beq e .nil)), w.closed)
  | .ok _ => .error "shape"
  | .error e => .error e

/-- the kernel's answer for the head packet as control messages: credentials (when SO_PASSCRED) come before the rights -/
def cmsgsOf (r : Recv) (passcred : Bool) : List CMsg :=
  (if passcred then [CMsg.cred] else []) ++ (if r.files.isEmpty then [] else [CMsg.rights r.files])

/-- regenerated code vs hand model on one received packet -/
def agrees (p : Packet) (dcap fcap : Nat) (passcred : Bool) : Bool :=
  let r := krecv p dcap fcap
  let flags := (if p.data.length > dcap then Gen.Consts.syscall_MSG_TRUNC else 0) + (if p.files.length > fcap then Gen.Consts.syscall_MSG_CTRUNC else 0)
  match genRecv r.data.length flags (cmsgsOf r passcred), recvMsg true ⟨[p], []⟩ dcap fcap with
  | .ok ((n, fds, _, isErr), closed), (.truncated, st) => isErr && n == 0 && fds.isEmpty && closed == r.files && st.leaked.isEmpty
  | .ok ((n, fds, cred, isErr), closed), (.msg d f _, _) => !isErr && n == d.length && fds == f && closed.isEmpty && cred == passcred
  | _, _ => false

end GoSandbox.Model.SocketGen
