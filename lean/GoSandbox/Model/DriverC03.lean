import GoSandbox.Base.Proto
import GoSandbox.Model.Verdict
namespace GoSandbox.Driver.C03
open GoSandbox.Proto GoSandbox.Model.Verdict

def kindOf : Char → Option Kind
  | 'f' => some .fork | 'v' => some .vfork | 'c' => some .clone | _ => none

def actOf : String → Option Act
  | "a" => some .allow | "b" => some .ban | "k" => some .kill | _ => none

def fresOf : String → Option FRes
  | "allow" => some .allow | "trace" => some .trace | "kill" => some .kill | _ => none

def plus (l : List String) : String := if l.isEmpty then "-" else String.intercalate "+" l

/-- `c03.run <ops>`: op = lineage:id:fres:act (lineage over f v c, "r" for the root) -/
def handle : List String → Option String
  | ["c03.run", ops] => do
    let parsed ← (splitList ops).mapM (fun (o : String) => match o.splitOn ":" with
      | [lin, id, fr, a] => do
        let l ← (if lin == "r" then some [] else lin.toList.mapM kindOf)
        some ((⟨l, ← id.toNat?, ← fresOf fr⟩ : Op), ← actOf a)
      | _ => none)
    let bits ← genOptionBits
    let decide : Nat → Act := fun i => match parsed.find? (fun p => p.1.id == i) with | some p => p.2 | none => .allow
    let s := runOps (kindsOf bits) decide (parsed.map (·.1)) {}
    some s!"effects={plus (s.effects.map toString)} rets={plus (s.rets.map (fun r => s!"{r.1}={r.2}"))} status={if s.status == .disallowed then "disallowed" else "normal"}"
  | ["c03.trap", a, o, r] => do
    let act ← actOf a
    let regs : Regs := ⟨← o.toNat?, ← r.toNat?⟩
    match genTrap act regs with
    | .ok x => if x == handleTrapM act regs then some s!"{x.1.origRax} {x.1.rax} {x.2}" else some "model-split"
    | .error e => some s!"gen-error {e}"
  | _ => none

end GoSandbox.Driver.C03
