/-
Running the regenerated `forkAndExecInChild` (Gen.ForkChild) in the Go-lite interpreter against
an abstract kernel: every raw syscall is recorded in a trace; the few syscalls whose results or
effects the function depends on (dup3/close/fcntl on the descriptor table, read/write on the
sync socket, getpid, execve, exit) are given their kernel semantics; any syscall may be made to
fail with a chosen errno (failure oracle indexed by the syscall's position). Core-only.
-/
import GoSandbox.GoLite.Exec
import GoSandbox.Gen.ForkChild
import GoSandbox.Gen.Consts
namespace GoSandbox.Model.ForkChildRun
open GoSandbox.GoLite

def cNat (n : String) : Int :=
  match Gen.Consts.table.find? (fun p => p.1 == n) with
  | some p => p.2
  | none => -999999

structure Sys where
  nr : Int
  args : List Val
  failed : Int := 0      -- errno injected (0 = success)
deriving Repr, Inhabited

/-- descriptor table entry: fd ↦ (open file id, close-on-exec) -/
abbrev FdTable := List (Nat × Nat × Bool)

def FdTable.get? (t : FdTable) (fd : Nat) : Option (Nat × Bool) :=
  match t with
  | [] => none
  | (k, f, c) :: r => if k == fd then some (f, c) else FdTable.get? r fd

def FdTable.erase (t : FdTable) (fd : Nat) : FdTable := t.filter (fun e => e.1 != fd)
def FdTable.put (t : FdTable) (fd file : Nat) (cloexec : Bool) : FdTable := (fd, file, cloexec) :: t.erase fd

structure KW where
  trace : List Sys := []            -- newest first
  step : Nat := 0
  failAt : Option (Nat × Int) := none
  fds : FdTable := []
  /-- what the parent sends on the sync socket, in order (8-byte errno values) -/
  pipeIn : List Int := []
  /-- what the child wrote on the sync socket -/
  pipeOut : List Val := []
  exited : Option Int := none       -- exit code
  execed : Bool := false
  pending : List (String × Val) := []
  /-- what getppid answers: the launcher (4241, see "syscall.Getpid") unless the child has been orphaned -/
  ppidNow : Int := 4241
deriving Inhabited

def errv (e : Int) : Val := .tup [.int (2 ^ 64 - 1), .int 0, .int e]
def okv (r : Int) : Val := .tup [.int r, .int 0, .int 0]

def EBADF : Int := 9
def EINVAL : Int := 22

def natOf : Val → Option Nat
  | .int i => if 0 ≤ i then some i.toNat else none
  | _ => none

def derefArg (env : Env) : Val → Val
  | .strct [("#ref", .str n)] => (env.get? n).getD .nil
  | v => v

/-- kernel semantics of one successful raw syscall (result value and state change) -/
def kernelStep (nr : Int) (args : List Val) (w : KW) : Val × KW :=
  if nr == cNat "syscall.SYS_DUP3" then
    match args.map natOf with
    | [some old, some new, some flags] =>
      match w.fds.get? old with
      | none => (errv EBADF, w)
      | some (file, _) =>
        if old == new then (errv EINVAL, w)
        else (okv new, { w with fds := w.fds.put new file (flags.land (cNat "syscall.O_CLOEXEC").toNat != 0) })
    | _ => (errv EBADF, w)
  else if nr == cNat "syscall.SYS_CLOSE" then
    match args.map natOf with
    | some fd :: _ => if (w.fds.get? fd).isSome then (okv 0, { w with fds := w.fds.erase fd }) else (errv EBADF, w)
    | _ => (errv EBADF, w)
  else if nr == cNat "syscall.SYS_FCNTL" then
    match args.map natOf with
    | [some fd, some cmd, some arg] =>
      match w.fds.get? fd with
      | none => (errv EBADF, w)
      | some (file, c) =>
        if cmd == (cNat "syscall.F_SETFD").toNat then (okv 0, { w with fds := w.fds.put fd file (arg % 2 == 1) })
        else (okv 0, { w with fds := w.fds.put fd file c })
    | _ => (errv EBADF, w)
  else if nr == cNat "syscall.SYS_READ" then
    match args, w.pipeIn with
    | [_, .strct [("#ref", .str var)], n], v :: rest => (.tup [n, .int 0, .int 0], { w with pipeIn := rest, pending := [(var, .int v)] })
    | _, _ => (okv 0, w)   -- peer closed: read returns 0
  else if nr == cNat "syscall.SYS_WRITE" || nr == cNat "unix.SYS_WRITE" then
    match args with
    | [_, v, n] => (.tup [n, .int 0, .int 0], { w with pipeOut := w.pipeOut ++ [v] })
    | _ => (okv 0, w)
  else if nr == cNat "syscall.SYS_GETPID" then (okv 4242, w)
  else if nr == cNat "syscall.SYS_GETPPID" then (okv w.ppidNow, w)  -- the process that forked us (see "syscall.Getpid"), or who adopted us
  else if nr == cNat "unix.SYS_EXECVE" || nr == cNat "unix.SYS_EXECVEAT" then (okv 0, { w with execed := true })
  else if nr == cNat "syscall.SYS_EXIT" then
    (okv 0, { w with exited := some (match args with | .int c :: _ => c | _ => 0) })
  else (okv 0, w)

def rawSyscall (args : List Val) (env : Env) (w : KW) : Val × KW :=
  match args with
  | .int nr :: rest =>
    let rest := rest.map (fun a => match a with
      | .strct [("#ref", .str n)] => if nr == cNat "syscall.SYS_READ" then a else derefArg env a
      | v => v)
    let idx := w.step
    let w := { w with step := w.step + 1 }
    match w.failAt with
    | some (k, e) =>
      if k == idx then
        (errv e, { w with trace := ⟨nr, rest, e⟩ :: w.trace })
      else
        let (v, w') := kernelStep nr rest w
        (v, { w' with trace := ⟨nr, rest, 0⟩ :: w'.trace })
    | none =>
      let (v, w') := kernelStep nr rest w
      (v, { w' with trace := ⟨nr, rest, 0⟩ :: w'.trace })
  | _ => (errv EINVAL, w)

def globF (n : String) : Option Val :=
  match Gen.Consts.strings.find? (fun p => p.1 == n) with
  | some p => some (.list [.str p.2])
  | none =>
    match n with
    | "runtime.GOARCH" => some (.str "amd64")
    | "dropCapHeader" | "dropCapData" | "etxtbsyRetryInterval" => some (.str n)
    | _ => (Gen.Consts.table.find? (fun p => p.1 == n)).map (fun p => Val.int p.2)

def extBase (name : String) (args : List Val) (env : Env) (w : KW) : Except String (Val × KW) :=
  match name, args with
  | "syscall.RawSyscall", _ | "syscall.RawSyscall6", _ => .ok (rawSyscall args env w)
  | "vfork.RawVforkSyscall", _ =>
    -- clone: we follow the child (r1 = 0, err1 = 0); recorded like any other syscall
    let (_, w) := rawSyscall args env w
    .ok (.tup [.int 0, .int 0], w)
  | "syscall.Getpid", [] => .ok (.int 4241, w)                    -- the launcher's own pid, taken before the fork
  | "unsafe.Pointer", [v] => .ok (v, w)
  | "uintptr", [v] => .ok (v, w)
  | "unsafe.Sizeof", [.int _] => .ok (.int 8, w)
  | "unsafe.Sizeof", [_] => .ok (.int (cNat "sizeofChildError"), w)
  | "syscall.ForkLock.Lock", _ | "beforeFork", _ | "afterForkInChild", _ => .ok (.nil, w)
  | "#zero", [.str "syscall.Statfs_t"] => .ok (.strct [("Flags", .int 0)], w)
  | "#zero", _ => .ok (.nil, w)
  | _, _ => .error s!"unknown call {name}"

def cfg0 : Cfg KW :=
  { ext := extBase, glob := globF, halted := fun w => w.exited.isSome || w.execed,
    flush := fun w => (w.pending, { w with pending := [] }) }

def callGen (f : Func) (args : List Val) (w : KW) : Except String (Option (List Val) × KW) :=
  match runBody cfg0 f.results f.body ((f.params.zip args).reverse) w 4000 with
  | .ok (r, _, w) => .ok (r, w)
  | .error e => .error e

def ext (name : String) (args : List Val) (env : Env) (w : KW) : Except String (Val × KW) :=
  match name with
  | "prepareFds" => do
    let (r, w) ← callGen Gen.ForkChild.prepareFds args w
    match r with
    | some vs => .ok (.tup vs, w)
    | none => .error "prepareFds did not return"
  | "childExitError" => do
    -- the fault oracle addresses the launch steps; the exit helper itself runs fault-free
    let (_, w) ← callGen Gen.ForkChild.childExitError args { w with failAt := none }
    .ok (.nil, w)
  | "childExitErrorWithIndex" => do
    let (_, w) ← callGen Gen.ForkChild.childExitErrorWithIndex args { w with failAt := none }
    .ok (.nil, w)
  | _ => extBase name args env w

def cfg : Cfg KW := { cfg0 with ext := ext }

/-- launch parameters: the Runner record `r` plus the prepared C strings (`nil` when unset) -/
structure Launch where
  r : Val
  workdir : Val := .nil
  hostname : Val := .nil
  domainname : Val := .nil
  pivotRoot : Val := .nil
  p0 : Nat := 100      -- parent end of the sync socketpair
  p1 : Nat := 101      -- child end

structure ChildOut where
  w : KW
  rAfter : Val        -- the Runner value as the child left it (what a vfork-sharing parent sees)

def runChild (l : Launch) (w : KW) (fuel : Nat := 20000) : Except String ChildOut := do
  let f := Gen.ForkChild.forkAndExecInChild
  let args : List Val := [l.r, .str "argv0", .list [.str "argv"], .list [.str "env"], l.workdir, l.hostname, l.domainname,
    l.pivotRoot, .list [.int l.p0, .int l.p1]]
  let env : Env := [("err1", .int 0), ("r1", .int 0)] ++ (f.params.zip args).reverse
  let (_, env, w) ← runBody cfg f.results f.body env w fuel
  .ok ⟨w, (env.get? "r").getD .nil⟩

/-- the descriptor table the new program sees: close-on-exec descriptors are gone -/
def atExec (t : FdTable) : List (Nat × Nat) :=
  (t.filter (fun e => !e.2.2)).map (fun e => (e.1, e.2.1))

def sortFds (l : List (Nat × Nat)) : List (Nat × Nat) :=
  l.foldl (fun acc x => (acc.filter (fun y => y.1 < x.1)) ++ [x] ++ (acc.filter (fun y => y.1 > x.1))) []

/-- names of the syscalls in the trace, oldest first (for readable comparison) -/
def sysName (nr : Int) : String :=
  match Gen.Consts.table.find? (fun p => p.2 == nr && (p.1.startsWith "syscall.SYS_" || p.1.startsWith "unix.SYS_")) with
  | some p =>
    -- text after "SYS_", lower-cased (list operations only: reduces in the kernel)
    let cs := p.1.toList
    let after := (cs.drop ((cs.length - ((cs.reverse.takeWhile (· != '.')).length)))).drop 4
    String.ofList (after.map (fun c => if 'A' ≤ c ∧ c ≤ 'Z' then Char.ofNat (c.toNat + 32) else c))
  | none => "sys?"

end GoSandbox.Model.ForkChildRun
