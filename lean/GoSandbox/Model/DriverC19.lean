import GoSandbox.Base.Proto
import GoSandbox.Model.Socket
import GoSandbox.Model.Gob
namespace GoSandbox.Driver.C19
open GoSandbox.Proto GoSandbox.Model.Socket

/-- the two message types of package container: the command (kind 0) and the reply (kind 1). Each needs the
descriptor of its own struct type (with its nested structs) and both need the descriptor of `[]string`, which
gob does not predefine (cmd: Argv/Env/paths; reply: BatchErrors): id 3 is shared. Observed on the real
encoder/decoder: after an unsent oversize first command a small reply fails with
"gob: wrong type ([]string) for received field reply.BatchErrors". -/
def gobCfg : GoSandbox.Model.Gob.Cfg := { descs := fun k => if k == 0 then [1, 3] else [2, 3], descSize := fun _ => 200, cap := 32768 }

/-- `c19.gob s<kind>.<bytes> | r ...`: a history of the gob-framed layer; one outcome per operation:
S sent, X rejected (too large), G<kind>.<bytes> got, E decode error, 0 nothing to receive -/
def gobRun (toks : List String) : String :=
  let ops : List GoSandbox.Model.Gob.Op := toks.filterMap (fun t =>
    if t == "r" then some GoSandbox.Model.Gob.Op.recv
    else match (t.drop 1).toString.splitOn "." with
      | [k, n] => (match k.toNat?, n.toNat? with
          | some k, some n => some (GoSandbox.Model.Gob.Op.send k (List.replicate n 1))
          | _, _ => none)
      | _ => none)
  let outs := (GoSandbox.Model.Gob.run gobCfg GoSandbox.Model.Gob.init ops).2
  " ".intercalate (outs.map (fun o => match o with
    | .sent => "S" | .rejected => "X" | .got k p => s!"G{k}.{p.length}" | .decodeError => "E" | .empty => "0"))

/-- `c19.pair <size> <nfds> <cred|-> <bufsize> <fcap>`: one send then one receive -/
def handle : List String → Option String
  | ["c19.pair", sz, nf, cred, buf, fcap] => do
    let sz ← sz.toNat?
    let nf ← nf.toNat?
    let p : Packet := ⟨List.replicate sz 7, List.range nf, if cred == "-" then none else some (0, 0, 0)⟩
    match send [] p with
    | none => some "send-rejected"
    | some q =>
      match (recvMsg true ⟨q, []⟩ (← buf.toNat?) (← fcap.toNat?)).1 with
      | .msg d f _ => some s!"msg {d.length} {f.length} {cred} intact=1"
      | .truncated => some "truncated"
      | .empty => some "empty"
  | "c19.gob" :: ops => some (gobRun ops)
  | _ => none

end GoSandbox.Driver.C19
