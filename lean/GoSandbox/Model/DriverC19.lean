import GoSandbox.Base.Proto
import GoSandbox.Model.Socket
namespace GoSandbox.Driver.C19
open GoSandbox.Proto GoSandbox.Model.Socket

/-- `c19.pair <size> <nfds> <cred|-> <bufsize> <fcap>`: one send then one receive -/
def handle : List String → Option String
  | ["c19.pair", sz, nf, cred, buf, fcap] => do
    let sz ← sz.toNat?
    let nf ← nf.toNat?
    let p : Packet := ⟨List.replicate sz 7, List.range nf, if cred == "-" then none else some (0, 0, 0)⟩
    match send [] p with
    | none => some "send-rejected"
    | some q =>
      match (recvMsg true ⟨q, []⟩ (← buf.toNat?) (← fcap.toNat?)).1 with
      | .msg d f _ => some s!"msg {d.length} {f.length} {cred} intact=1"
      | .truncated => some "truncated"
      | .empty => some "empty"
  | _ => none

end GoSandbox.Driver.C19
