/- Go-lite runs of the regenerated libseccomp glue (Gen.C01): ToSeccompAction, Builder.Build's policy
construction, sockFilter, and runprog's cleanTrace. Core-only. -/
import GoSandbox.GoLite.Exec
import GoSandbox.Gen.C01
import GoSandbox.Gen.Consts
namespace GoSandbox.Model.SeccompGen
open GoSandbox.GoLite

def glob (n : String) : Option Val :=
  (Gen.Consts.table.find? (fun p => p.1 == n)).map (fun p => Val.int p.2)

/-- world: the policy handed to `Policy.Assemble` -/
abbrev W := Option Val

def keysOf : Val → Val
  | .strct fs => .list (fs.map (fun p => Val.str p.1))
  | _ => .list []

partial def extF (name : String) (args : List Val) (env : Env) (w : W) : Except String (Val × W) :=
  .error "unused"

def runAction (a : Int) : Except String Int :=
  let cfgA : Cfg W := { ext := fun n args _ w => match n, args with
      | "Action", [v] => .ok (v, w)
      | _, _ => .error s!"unknown call {n}", glob := glob }
  let cfgT : Cfg W := { ext := fun n args env w => match n, args with
      | "a.Action", [] => (match runBody cfgA [] Gen.C01.actionOf.body [("a", (env.get? "a").getD .nil)] w 50 with
          | .ok (some [v], _, w) => .ok (v, w)
          | _ => .error "Action()")
      | "#zero", _ => .ok (.int 0, w)
      | _, _ => .error s!"unknown call {n}", glob := glob }
  match runBody cfgT [] Gen.C01.toSeccompAction.body [("a", .int a)] none 100 with
  | .ok (some [.int r], _, _) => .ok r
  | .ok _ => .error "shape"
  | .error e => .error e

/-- what `Builder.Build` hands to go-seccomp-bpf: (default action word, [(action word, names)]) -/
def runBuild (allow trace : List String) (dflt : Int) : Except String (Int × List (Int × List String)) :=
  let cfgB : Cfg W := { ext := fun n args _ w => match n, args with
      | "ToSeccompAction", [.int a] => (match runAction a with | .ok r => .ok (.int r, w) | .error e => .error e)
      | "policy.Assemble", [] => .ok (.tup [.str "program", .nil], w)
      | "ExportBPF", [_] => .ok (.tup [.str "filter", .nil], w)
      | _, _ => .error s!"unknown call {n}", glob := glob }
  let b : Val := .strct [("Allow", .list (allow.map Val.str)), ("Trace", .list (trace.map Val.str)), ("Default", .int dflt)]
  match runBody cfgB [] Gen.C01.build.body [("b", b)] none 200 with
  | .ok (_, env, _) =>
    match env.get? "policy" with
    | some (.strct fs) =>
      match recGet fs "DefaultAction", recGet fs "Syscalls" with
      | some (.int d), some (.list gs) =>
        .ok (d, gs.filterMap (fun g => match g with
          | .strct gf => (match recGet gf "Action", recGet gf "Names" with
            | some (.int a), some (.list ns) => some (a, ns.filterMap (fun v => match v with | .str s => some s | _ => none))
            | _, _ => none)
          | _ => none))
      | _, _ => .error "policy shape"
    | _ => .error "no policy"
  | .error e => .error e

def runSockFilter (raw : List (Nat × Nat × Nat × Nat)) : Except String (List (Nat × Nat × Nat × Nat)) :=
  let c : Cfg W := { ext := fun n _ _ _ => .error s!"unknown call {n}", glob := glob }
  let rv : Val := .list (raw.map (fun r => Val.strct [("Op", .int r.1), ("Jt", .int r.2.1), ("Jf", .int r.2.2.1), ("K", .int r.2.2.2)]))
  match runBody c [] Gen.C01.sockFilter.body [("raw", rv)] none 400 with
  | .ok (some [.list l], _, _) => .ok (l.filterMap (fun v => match v with
      | .strct fs => (match recGet fs "Code", recGet fs "Jt", recGet fs "Jf", recGet fs "K" with
        | some (.int a), some (.int b), some (.int c), some (.int d) => some (a.toNat, b.toNat, c.toNat, d.toNat)
        | _, _, _, _ => none)
      | _ => none))
  | .ok _ => .error "shape"
  | .error e => .error e

def runCleanTrace (allow trace : List String) : Except String (List String × List String) :=
  let c : Cfg W := { ext := fun n args _ w => match n, args with
      | "make", _ => .ok (.strct [], w)
      | "keySetToSlice", [m] => .ok (keysOf m, w)
      | _, _ => .error s!"unknown call {n}", glob := glob }
  match runBody c [] Gen.C01.cleanTrace.body [("trace", .list (trace.map Val.str)), ("allow", .list (allow.map Val.str))] none 2000 with
  | .ok (some [.list a, .list t], _, _) =>
    let strs (l : List Val) := l.filterMap (fun v => match v with | .str s => some s | _ => none)
    .ok (strs a, strs t)
  | .ok _ => .error "shape"
  | .error e => .error e

end GoSandbox.Model.SeccompGen
