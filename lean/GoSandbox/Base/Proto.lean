/-
Line protocol helpers for the model driver (core-only).
Fields: strings are `x<hex>` (empty string = `x`); lists are comma separated, the empty list is `-`.
-/
namespace GoSandbox.Proto

def hexVal (c : Char) : Option Nat :=
  if '0' ≤ c ∧ c ≤ '9' then some (c.toNat - '0'.toNat)
  else if 'a' ≤ c ∧ c ≤ 'f' then some (c.toNat - 'a'.toNat + 10)
  else none

def unhexAux : List Char → Option (List Char)
  | [] => some []
  | [_] => none
  | a :: b :: rest => do
    let x ← hexVal a
    let y ← hexVal b
    let r ← unhexAux rest
    pure (Char.ofNat (x * 16 + y) :: r)

/-- decode `x<hex>` into one Char per byte. -/
def unhex (s : String) : Option (List Char) :=
  match s.toList with
  | 'x' :: rest => unhexAux rest
  | _ => none

def hexDigit (n : Nat) : Char :=
  if n < 10 then Char.ofNat ('0'.toNat + n) else Char.ofNat ('a'.toNat + n - 10)

def hex (l : List Char) : String :=
  String.ofList ('x' :: l.flatMap (fun c => [hexDigit (c.toNat / 16 % 16), hexDigit (c.toNat % 16)]))

def splitList (s : String) : List String :=
  if s = "-" then [] else s.splitOn ","

def unhexList (s : String) : Option (List (List Char)) :=
  (splitList s).mapM unhex

def natList (s : String) : Option (List Nat) :=
  (splitList s).mapM String.toNat?

def intOf (s : String) : Option Int :=
  match s.toList with
  | '-' :: r => (String.ofList r).toNat?.map (fun n => - (Int.ofNat n))
  | _ => s.toNat?.map Int.ofNat

def joinList (l : List String) : String :=
  if l.isEmpty then "-" else String.intercalate "," l

def bool01 (b : Bool) : String := if b then "1" else "0"

end GoSandbox.Proto
