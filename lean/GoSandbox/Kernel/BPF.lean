/-
The classic-BPF machine restricted to what a seccomp filter may contain, over `struct seccomp_data`.
Words are `Nat` (< 2^32 for well-formed inputs; no arithmetic is performed, only loads, compares,
jumps and returns, so no wrap-around is involved).  Only forward jumps exist, so "jump n" is
`List.drop n` of the remaining instructions.  Core-only.
-/
namespace GoSandbox.Kernel.BPF

structure Insn where
  code : Nat
  jt : Nat
  jf : Nat
  k : Nat
deriving DecidableEq, Repr, Inhabited

/-- struct seccomp_data: nr (offset 0), arch (offset 4), instruction pointer and args (offsets 8..63) -/
structure Data where
  nr : Nat
  arch : Nat
  other : Nat → Nat     -- word at offset 8, 12, …, 60

def opLdAbs : Nat := 0x20
def opJa : Nat := 0x05
def opJeq : Nat := 0x15
def opJgt : Nat := 0x25
def opJge : Nat := 0x35
def opJset : Nat := 0x45
def opRet : Nat := 0x06

def load (d : Data) (off : Nat) : Nat :=
  if off = 0 then d.nr else if off = 4 then d.arch else d.other off

/-- run the remaining instructions with accumulator `a`; `none` = rejected / ran off the end -/
def run : Nat → List Insn → Nat → Data → Option Nat
  | 0, _, _, _ => none
  | _ + 1, [], _, _ => none
  | fuel + 1, i :: rest, a, d =>
    if i.code = opLdAbs then run fuel rest (load d i.k) d
    else if i.code = opRet then some i.k
    else if i.code = opJa then run fuel (rest.drop i.k) a d
    else if i.code = opJeq then run fuel (rest.drop (if a = i.k then i.jt else i.jf)) a d
    else if i.code = opJgt then run fuel (rest.drop (if a > i.k then i.jt else i.jf)) a d
    else if i.code = opJge then run fuel (rest.drop (if a ≥ i.k then i.jt else i.jf)) a d
    else none

def exec (prog : List Insn) (d : Data) : Option Nat := run prog.length prog 0 d

/-- well-formedness the validator insists on: only the opcodes above (no JSET, no ALU, no X),
loads only of `nr` and `arch` -/
def wfInsn (i : Insn) : Bool :=
  (i.code == opLdAbs && (i.k == 0 || i.k == 4)) || i.code == opRet || i.code == opJa ||
  i.code == opJeq || i.code == opJgt || i.code == opJge

def wf (prog : List Insn) : Bool := prog.all wfInsn

/-- constants the program compares the accumulator against -/
def consts (prog : List Insn) : List Nat :=
  (prog.filter (fun i => i.code == opJeq || i.code == opJgt || i.code == opJge)).map (·.k)

end GoSandbox.Kernel.BPF
