/-
A pid namespace's process forest, as far as reaping is concerned: processes with a parent
pointer and alive/zombie state; `kill(-1, SIGKILL)` from init, reparenting of orphans to init,
`wait4(-1)` in a loop until ECHILD.  Core-only.
-/
namespace GoSandbox.Kernel.Proc

structure P where
  pid : Nat
  parent : Nat
  alive : Bool
deriving DecidableEq, Repr

/-- every process of the namespace except init (init is pid 1 and is not in the list) -/
abbrev Forest := List P

/-- kill(-1, SIGKILL) issued by init: every other process of the namespace dies (SIGKILL cannot be
caught, blocked or ignored) -/
def killAll (f : Forest) : Forest := f.map (fun p => { p with alive := false })

def isDead (f : Forest) (pid : Nat) : Bool := f.any (fun p => p.pid == pid && !p.alive)

/-- a process whose parent has died is reparented to the namespace init -/
def reparent (f : Forest) : Forest := f.map (fun p => if isDead f p.parent then { p with parent := 1 } else p)

/-- one successful wait4(-1): reap the first zombie child of init -/
def reap1 : Forest → Option Forest
  | [] => none
  | p :: rest => if p.parent == 1 && !p.alive then some rest else (reap1 rest).map (p :: ·)

/-- the waitAll loop: wait4(-1) until it fails (ECHILD); after each reap orphans are reparented -/
def waitAll : Nat → Forest → Forest
  | 0, f => f
  | fuel + 1, f => match reap1 (reparent f) with
    | some f' => waitAll fuel f'
    | none => reparent f

end GoSandbox.Kernel.Proc
