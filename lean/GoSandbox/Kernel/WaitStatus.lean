/-
Linux wait status encodings and Go's `syscall.WaitStatus` accessors (16-bit patterns, on Nat).
-/
namespace GoSandbox.Kernel.WaitStatus

def exited (w : Nat) : Bool := w % 128 == 0
def signaled (w : Nat) : Bool := w % 128 != 127 && w % 128 != 0
def stopped (w : Nat) : Bool := w % 256 == 127
def exitStatus (w : Nat) : Int := if exited w then Int.ofNat (w / 256 % 256) else -1
def signal (w : Nat) : Int := if signaled w then Int.ofNat (w % 128) else -1
def stopSignal (w : Nat) : Int := if stopped w then Int.ofNat (w / 256 % 256) else -1
def trapCause (w : Nat) (sigtrap : Nat) : Int :=
  if stopSignal w != Int.ofNat sigtrap then -1 else Int.ofNat (w / 65536)

/-- status of a process that called `exit(code)` -/
def ofExit (code : Nat) : Nat := (code % 256) * 256
/-- status of a process terminated by `sig` (1..127), with or without a core dump -/
def ofSignal (sig : Nat) (core : Bool) : Nat := sig + (if core then 128 else 0)
/-- status of a ptrace/job-control stop with signal `sig` and ptrace event `ev` -/
def ofStop (sig ev : Nat) : Nat := 127 + sig * 256 + ev * 65536

end GoSandbox.Kernel.WaitStatus
