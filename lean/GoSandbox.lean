-- Root of the `GoSandbox` library: models, specs, lemmas and property theorems.
import GoSandbox.Model.FileSet
import GoSandbox.Spec.Covers
import GoSandbox.Lemmas.FileSet
